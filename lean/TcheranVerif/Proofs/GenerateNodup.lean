import TcheranVerif.Proofs.Stages
/-!
# `generate_nodup`: no move is listed twice (C01)
-/

namespace Tcheran
open Board Geometry Rules

theorem mem_sq_sq (A : BB) (B : Sq → BB) (mk : Sq → Sq → Move) (m : Move) :
    m ∈ ((BB.toList A).flatMap fun s => (BB.toList (B s)).map fun d => mk s d) ↔
      ∃ s d, mem A s = true ∧ mem (B s) d = true ∧ m = mk s d := by
  simp only [List.mem_flatMap, List.mem_map, mem_toList]
  constructor
  · rintro ⟨s, hs, d, hd, e⟩; exact ⟨s, d, hs, hd, e.symm⟩
  · rintro ⟨s, d, hs, hd, e⟩; exact ⟨s, hs, d, hd, e.symm⟩

theorem stage_of (b : RBoard) (m : Move) (k : PieceKind) (pl : Player) (h : at' b m.src = some ⟨k, pl⟩) :
    stage b m = stageCode (some k) m.flag (Geo.diagMove m.src m.dst) (Geo.rankDist m.src m.dst) := by
  unfold stage; rw [h]; rfl

/-- the sixteen stages of one `generate_captures` + `generate_quiets` pass are duplicate-free and
pairwise disjoint -/
theorem stages_nodup (T : SliderTables) (g : Game) (k : Sq) (h : PosH g k) (cm op dp : BB)
    (ms : MaskSpec g.board g.player k cm op dp)
    (L2 Q1 Q2 Q3 : List (List Move)) (Lep : List Move)
    (hL2 : Gen.pawnPromoPushes g.player [.queen] (g.board.pawnsOf g.player) g.board.occupancy cm op dp = some L2)
    (hQ1 : Gen.pawnPromoPushes g.player Gen.promoOrderQuietUnder (g.board.pawnsOf g.player) g.board.occupancy cm op dp
      = some Q1)
    (hQ2 : Gen.pawnSinglePushes g.player (g.board.pawnsOf g.player) g.board.occupancy cm op dp = some Q2)
    (hQ3 : Gen.pawnDoublePushes g.player (g.board.pawnsOf g.player) g.board.occupancy cm op dp = some Q3)
    (hLep : Gen.pawnEnPassant g (g.board.pawnsOf g.player) k cm op dp = some Lep)
    (sL2 : ∀ m, m ∈ L2.flatten ↔ RPromoPush g.board.squares g.player [.queen] m)
    (sQ1 : ∀ m, m ∈ Q1.flatten ↔ RPromoPush g.board.squares g.player Gen.promoOrderQuietUnder m)
    (sQ2 : ∀ m, m ∈ Q2.flatten ↔ RSingle g.board.squares g.player m)
    (sQ3 : ∀ m, m ∈ Q3.flatten ↔ RDouble g.board.squares g.player m) :
    (((Gen.pawnPromoCaptures g.player (g.board.pawnsOf g.player) (g.board.occFor g.player.other) cm op dp
        ++ L2.flatten ++ Gen.pawnPlainCaptures g.player (g.board.pawnsOf g.player) (g.board.occFor g.player.other) cm op dp
        ++ Lep)
      ++ Gen.knightCaptures (g.board.knightsOf g.player) (g.board.occFor g.player.other) cm op dp
      ++ Gen.diagSliderCaptures (g.board.diagSliders g.player) (g.board.occFor g.player.other) g.board.occupancy cm op dp
      ++ Gen.orthSliderCaptures (g.board.orthSliders g.player) (g.board.occFor g.player.other) g.board.occupancy cm op dp
      ++ Gen.kingCaptures g k (g.board.occFor g.player.other)) ++
    (((Q1.flatten ++ Q2.flatten ++ Q3.flatten)
      ++ Gen.knightQuiets (g.board.knightsOf g.player) g.board.occupancy cm op dp
      ++ Gen.diagSliderQuiets (g.board.diagSliders g.player) g.board.occupancy cm op dp
      ++ Gen.orthSliderQuiets (g.board.orthSliders g.player) g.board.occupancy cm op dp
      ++ Gen.kingQuiets g k g.board.occupancy)
      ++ (if attackersOf g.board g.player k == 0#64 then Gen.castles g g.board.occupancy else []))).Nodup := by
  have hc := h.ctx.cons
  have hpawn : ∀ s, mem (g.board.pawnsOf g.player) s = true → at' g.board.squares s = some ⟨.pawn, g.player⟩ :=
    fun s hs => (mem_pawnsOf g.board hc g.player s).1 hs
  -- the shape of a slider move
  have hdiag : ∀ s d, mem (bishopAttacks s g.board.occupancy) d = true → Geo.diagMove s d = true := by
    intro s d hd
    rw [T.bishop, bishopSpec, slideSpec, mem_setOf, List.mem_flatMap] at hd
    obtain ⟨dir, hdir, hs⟩ := hd
    exact Geo.ray_diag_shape s dir hdir d (seen_sublist _ _ d hs)
  have horth : ∀ s d, mem (rookAttacks s g.board.occupancy) d = true → Geo.diagMove s d = false := by
    intro s d hd
    rw [T.rook, rookSpec, slideSpec, mem_setOf, List.mem_flatMap] at hd
    obtain ⟨dir, hdir, hs⟩ := hd
    exact Geo.ray_card_shape s dir hdir d (seen_sublist _ _ d hs)
  have hdests : ∀ (att : Sq → BB → BB) (s : Sq) (PS : BB) (d : Sq),
      mem (sliderDests att s g.board.occupancy cm PS) d = true → mem (att s g.board.occupancy) d = true := by
    intro att s PS d hd
    unfold sliderDests at hd
    simp only at hd
    split at hd
    · rw [mem_and, mem_and] at hd
      simp only [Bool.and_eq_true] at hd
      exact hd.1.1
    · rw [mem_and] at hd
      simp only [Bool.and_eq_true] at hd
      exact hd.1
  have hslider : ∀ (k1 : PieceKind) (s : Sq),
      (at' g.board.squares s = some ⟨k1, g.player⟩ ∨ at' g.board.squares s = some ⟨.queen, g.player⟩) →
      (k1 = .bishop ∨ k1 = .rook) → ∀ (fl : MoveFlag) (dm : Bool) (rd : Nat) (d : Sq) (m : Move),
      m.src = s → m.dst = d → m.flag = fl → Geo.diagMove s d = dm → (fl = .capture ∨ fl = .quiet) →
      stage g.board.squares m = stageCode (some .queen) fl dm 0 := by
    intro k1 s hs hk1 fl dm rd d m e1 e2 e3 e4 hfl
    rcases hs with hs | hs
    · rw [stage_of _ m k1 g.player (e1 ▸ hs), e1, e2, e3, e4]
      rcases hk1 with e | e <;> subst e <;> rcases hfl with e | e <;> subst e <;> cases dm <;> rfl
    · rw [stage_of _ m .queen g.player (e1 ▸ hs), e1, e2, e3, e4]
      rcases hfl with e | e <;> subst e <;> cases dm <;> rfl
  have hassoc : ∀ (a1 a2 a3 a4 a5 a6 a7 a8 b1 b2 b3 b4 b5 b6 b7 b8 : List Move),
      ((((a1 ++ a2 ++ a3 ++ a4) ++ a5 ++ a6 ++ a7 ++ a8) ++ (((b1 ++ b2 ++ b3) ++ b4 ++ b5 ++ b6 ++ b7) ++ b8))) =
      (([(1, a1), (2, a2), (3, a3), (4, a4), (5, a5), (6, a6), (7, a7), (8, a8), (9, b1), (10, b2), (11, b3),
         (12, b4), (13, b5), (14, b6), (15, b7), (16, b8)] : List (Nat × List Move)).map Prod.snd).flatten := by
    intros; simp [List.append_assoc]
  rw [hassoc]
  apply nodup_flatten_codes (stage g.board.squares)
  · simp only [List.map]; decide
  · intro pr hpr
    simp only [List.mem_cons, List.mem_nil_iff, or_false] at hpr
    rcases hpr with e | e | e | e | e | e | e | e | e | e | e | e | e | e | e | e <;> subst e <;> simp only
    · -- 1 promotion captures
      refine ⟨promoCaps_nodup _ _ _ _ _ _, fun m hm => ?_⟩
      obtain ⟨s, df, t, hs, _, _, _, _, ⟨pr, _, e⟩, _⟩ :=
        (promoCaptures_spec g.board g.player k h.ctx cm op dp ms m).1 hm
      rw [stage_of _ m .pawn g.player (by rw [e, cp_src]; exact hs), e]
      cases pr <;> rfl
    · -- 2 queen promotion pushes
      refine ⟨promoPushes_nodup _ _ (by decide) _ _ _ _ _ _ hL2, fun m hm => ?_⟩
      obtain ⟨s, t, hs, _, _, _, ⟨pr, hpr, e⟩, _⟩ := (sL2 m).1 hm
      rw [stage_of _ m .pawn g.player (by rw [e, qp_src]; exact hs), e]
      simp only [List.mem_singleton] at hpr
      subst hpr
      rfl
    · -- 3 plain pawn captures
      refine ⟨plainCaps_nodup _ _ _ _ _ _, fun m hm => ?_⟩
      obtain ⟨s, df, t, hs, _, _, _, _, e, _⟩ := (plainCaptures_spec g.board g.player k h.ctx cm op dp ms m).1 hm
      rw [stage_of _ m .pawn g.player (by rw [e]; exact hs), e]
      rfl
    · -- 4 en passant
      obtain ⟨n, hfl⟩ := ep_nodup g _ k cm op dp Lep hLep
      refine ⟨n, fun m hm => ?_⟩
      unfold stage
      rw [hfl m hm]
      generalize (at' g.board.squares m.src).map (·.kind) = kk
      rcases kk with _ | kk
      · rfl
      · cases kk <;> rfl
    · -- 5 knight captures
      refine ⟨knightCaps_nodup _ _ _ _ _, fun m hm => ?_⟩
      unfold Gen.knightCaptures at hm
      obtain ⟨s, d, hs, _, e⟩ := (mem_sq_sq _ _ Move.capture m).1 hm
      rw [mem_and, Bool.and_eq_true] at hs
      have := (mem_kindOf g.board hc .knight g.player s).1 hs.1
      rw [stage_of _ m .knight g.player (by rw [e]; exact this), e]
      rfl
    · -- 6 diagonal slider captures
      rw [diagCaps_eq]
      refine ⟨sliderCaps_nodup _ _ _ _ _ _ _, fun m hm => ?_⟩
      unfold sliderCaps at hm
      obtain ⟨s, d, hs, hd, e⟩ := (mem_sq_sq _ _ Move.capture m).1 hm
      rw [mem_and, Bool.and_eq_true] at hs hd
      have hk := (mem_sliders_spec g.board hc g.player .bishop s).1 hs.1
      have := hslider .bishop s hk (Or.inl rfl) .capture true 0 d m (by rw [e]; rfl) (by rw [e]; rfl) (by rw [e]; rfl)
        (hdiag s d (hdests _ s _ d hd.1)) (Or.inl rfl)
      rw [this]; rfl
    · -- 7 orthogonal slider captures
      rw [orthCaps_eq]
      refine ⟨sliderCaps_nodup _ _ _ _ _ _ _, fun m hm => ?_⟩
      unfold sliderCaps at hm
      obtain ⟨s, d, hs, hd, e⟩ := (mem_sq_sq _ _ Move.capture m).1 hm
      rw [mem_and, Bool.and_eq_true] at hs hd
      have hk := (mem_sliders_spec g.board hc g.player .rook s).1 hs.1
      have := hslider .rook s hk (Or.inr rfl) .capture false 0 d m (by rw [e]; rfl) (by rw [e]; rfl) (by rw [e]; rfl)
        (horth s d (hdests _ s _ d hd.1)) (Or.inl rfl)
      rw [this]; rfl
    · -- 8 king captures
      refine ⟨kingCaps_nodup _ _ _, fun m hm => ?_⟩
      unfold Gen.kingCaptures at hm
      obtain ⟨d, _, hm2⟩ := List.mem_flatMap.1 hm
      split at hm2
      · have e := List.mem_singleton.1 hm2
        rw [stage_of _ m .king g.player (by rw [e]; exact (h.ctx.king k).2 rfl), e]
        rfl
      · cases hm2
    · -- 9 under-promotion pushes
      refine ⟨promoPushes_nodup _ _ (by decide) _ _ _ _ _ _ hQ1, fun m hm => ?_⟩
      obtain ⟨s, t, hs, _, _, _, ⟨pr, hpr, e⟩, _⟩ := (sQ1 m).1 hm
      rw [stage_of _ m .pawn g.player (by rw [e, qp_src]; exact hs), e]
      simp only [Gen.promoOrderQuietUnder, List.mem_cons, List.mem_nil_iff, or_false] at hpr
      rcases hpr with e' | e' | e' <;> subst e' <;> rfl
    · -- 10 single pushes
      refine ⟨singlePushes_nodup _ _ _ _ _ _ _ hQ2, fun m hm => ?_⟩
      obtain ⟨s, t, hs, ho, _, _, e, _⟩ := (sQ2 m).1 hm
      have hf : s.forward g.player = some t := by
        rw [← (Geo.offset_forward s g.player (Geo.mem_players _)).1]; exact ho
      have hd := Geo.forward_dist s g.player (by cases g.player <;> simp)
      rw [hf] at hd
      simp only [Bool.and_eq_true, beq_iff_eq] at hd
      rw [stage_of _ m .pawn g.player (by rw [e]; exact hs), e]
      show stageCode (some .pawn) .quiet _ (Geo.rankDist s t) = 10
      rw [hd.1]
      cases Geo.diagMove s t <;> rfl
    · -- 11 double pushes
      refine ⟨doublePushes_nodup _ _ _ _ _ _ _ hQ3, fun m hm => ?_⟩
      obtain ⟨s, t1, t2, hs, ho1, _, _, ho2, _, e, _⟩ := (sQ3 m).1 hm
      have hoo := Geo.offset_forward s g.player (Geo.mem_players _)
      have e1 : s.forward g.player = some t1 := by rw [← hoo.1]; exact ho1
      have e2 : t1.forward g.player = some t2 := by
        have := hoo.2
        rw [ho2, e1] at this
        exact this.symm
      have hd := Geo.forward_dist s g.player (by cases g.player <;> simp)
      rw [e1] at hd
      simp only [Bool.and_eq_true, beq_iff_eq] at hd
      have hd2 := hd.2
      rw [e2] at hd2
      simp only [beq_iff_eq] at hd2
      rw [stage_of _ m .pawn g.player (by rw [e]; exact hs), e]
      show stageCode (some .pawn) .quiet _ (Geo.rankDist s t2) = 11
      rw [hd2]
      cases Geo.diagMove s t2 <;> rfl
    · -- 12 knight quiets
      refine ⟨knightQuiets_nodup _ _ _ _ _, fun m hm => ?_⟩
      unfold Gen.knightQuiets at hm
      obtain ⟨s, d, hs, _, e⟩ := (mem_sq_sq _ _ Move.quiet m).1 hm
      rw [mem_and, Bool.and_eq_true] at hs
      have := (mem_kindOf g.board hc .knight g.player s).1 hs.1
      rw [stage_of _ m .knight g.player (by rw [e]; exact this), e]
      rfl
    · -- 13 diagonal slider quiets
      rw [diagQuiets_eq]
      refine ⟨sliderQuiets_nodup _ _ _ _ _ _, fun m hm => ?_⟩
      unfold sliderQuiets at hm
      obtain ⟨s, d, hs, hd, e⟩ := (mem_sq_sq _ _ Move.quiet m).1 hm
      rw [mem_and, Bool.and_eq_true] at hs hd
      have hk := (mem_sliders_spec g.board hc g.player .bishop s).1 hs.1
      have := hslider .bishop s hk (Or.inl rfl) .quiet true 0 d m (by rw [e]; rfl) (by rw [e]; rfl) (by rw [e]; rfl)
        (hdiag s d (hdests _ s _ d hd.1)) (Or.inr rfl)
      rw [this]; rfl
    · -- 14 orthogonal slider quiets
      rw [orthQuiets_eq]
      refine ⟨sliderQuiets_nodup _ _ _ _ _ _, fun m hm => ?_⟩
      unfold sliderQuiets at hm
      obtain ⟨s, d, hs, hd, e⟩ := (mem_sq_sq _ _ Move.quiet m).1 hm
      rw [mem_and, Bool.and_eq_true] at hs hd
      have hk := (mem_sliders_spec g.board hc g.player .rook s).1 hs.1
      have := hslider .rook s hk (Or.inr rfl) .quiet false 0 d m (by rw [e]; rfl) (by rw [e]; rfl) (by rw [e]; rfl)
        (horth s d (hdests _ s _ d hd.1)) (Or.inr rfl)
      rw [this]; rfl
    · -- 15 king quiets
      refine ⟨kingQuiets_nodup _ _ _, fun m hm => ?_⟩
      unfold Gen.kingQuiets at hm
      obtain ⟨d, _, hm2⟩ := List.mem_flatMap.1 hm
      split at hm2
      · have e := List.mem_singleton.1 hm2
        rw [stage_of _ m .king g.player (by rw [e]; exact (h.ctx.king k).2 rfl), e]
        rfl
      · cases hm2
    · -- 16 castling
      obtain ⟨n, hfl⟩ := castles_nodup g g.board.occupancy
      split
      · refine ⟨n, fun m hm => ?_⟩
        unfold stage
        rw [hfl m hm]
        generalize (at' g.board.squares m.src).map (·.kind) = kk
        rcases kk with _ | kk
        · rfl
        · cases kk <;> rfl
      · exact ⟨List.nodup_nil, fun m hm => by cases hm⟩

end Tcheran

namespace Tcheran
open Board Geometry Rules

/-- **generate_nodup**: whatever the two generator stages return in a position meeting `PosH`, no move
occurs twice in it -/
theorem generate_nodup (T : SliderTables) (g : Game) (k : Sq) (h : PosH g k)
    (caps : List Move) (cache : MovegenCache) (quiets : List Move)
    (hcaps : generateCaptures g = some (caps, cache)) (hquiets : generateQuiets g cache = some quiets) :
    (caps ++ quiets).Nodup := by
  have hc := h.ctx.cons
  by_cases hn : BB.count (attackersOf g.board g.player k) > 1
  · -- double check: king moves only
    have e1 : generateCaptures g = some (Gen.kingCaptures g k (g.board.occFor g.player.other),
        { checkers := attackersOf g.board g.player k }) := by
      unfold generateCaptures
      rw [lsb_king g k h]
      show (if BB.count (attackersOf g.board g.player k) > 1 then _ else _) = _
      rw [if_pos hn]
      rfl
    rw [e1] at hcaps
    have hcc := Option.some.inj hcaps
    simp only [Prod.mk.injEq] at hcc
    obtain ⟨ec, ecache⟩ := hcc
    subst ec; subst ecache
    have e2 : generateQuiets g { checkers := attackersOf g.board g.player k } =
        some (Gen.kingQuiets g k g.board.occupancy) := by
      unfold generateQuiets
      rw [lsb_king g k h]
      show (if BB.count (attackersOf g.board g.player k) > 1 then _ else _) = _
      rw [if_pos hn]
      rfl
    rw [e2] at hquiets
    have := Option.some.inj hquiets
    subst this
    rw [List.nodup_append]
    refine ⟨kingCaps_nodup _ _ _, kingQuiets_nodup _ _ _, ?_⟩
    intro a ha b hb e
    unfold Gen.kingCaptures at ha
    unfold Gen.kingQuiets at hb
    obtain ⟨d, _, ha2⟩ := List.mem_flatMap.1 ha
    obtain ⟨d', _, hb2⟩ := List.mem_flatMap.1 hb
    split at ha2
    · split at hb2
      · rw [List.mem_singleton.1 ha2, List.mem_singleton.1 hb2] at e
        have := congrArg Move.flag e
        simp [Move.capture, Move.quiet] at this
      · cases hb2
    · cases ha2
  · obtain ⟨cm, hcmeq, hcm⟩ := checkMask_spec T g k h hn
    have ms := maskSpec_of T g k h cm hcm
    generalize hop : (getPins g.board g.player k).1 = op at ms
    generalize hdp : (getPins g.board g.player k).2 = dp at ms
    have hpins : getPins g.board g.player k = (op, dp) := by rw [← hop, ← hdp]
    obtain ⟨L2, hL2, sL2⟩ := promoPushes_spec g.board g.player k h.ctx cm op dp ms [.queen]
    obtain ⟨Q1, hQ1, sQ1⟩ := promoPushes_spec g.board g.player k h.ctx cm op dp ms Gen.promoOrderQuietUnder
    obtain ⟨Q2, hQ2, sQ2⟩ := singlePushes_spec g.board g.player k h.ctx cm op dp ms
    obtain ⟨Q3, hQ3, sQ3⟩ := doublePushes_spec g.board g.player k h.ctx cm op dp ms
    obtain ⟨Lep, hLep, _⟩ := enPassant_spec T g k h.ctx cm op dp ms h.ep
    have hpc : Gen.pawnCaptures g (g.board.pawnsOf g.player) k (g.board.occFor g.player.other) g.board.occupancy
        cm op dp = some (Gen.pawnPromoCaptures g.player (g.board.pawnsOf g.player) (g.board.occFor g.player.other) cm op dp
          ++ L2.flatten ++ Gen.pawnPlainCaptures g.player (g.board.pawnsOf g.player) (g.board.occFor g.player.other) cm op dp
          ++ Lep) := by
      unfold Gen.pawnCaptures
      rw [hL2, hLep]
      rfl
    have hpq : Gen.pawnQuiets g (g.board.pawnsOf g.player) g.board.occupancy cm op dp =
        some (Q1.flatten ++ Q2.flatten ++ Q3.flatten) := by
      unfold Gen.pawnQuiets
      rw [hQ1, hQ2, hQ3]
      rfl
    let cache0 : MovegenCache :=
      { checkers := attackersOf g.board g.player k, checkMask := cm, orthPins := op, diagPins := dp }
    have e1 : generateCaptures g = some ((Gen.pawnPromoCaptures g.player (g.board.pawnsOf g.player) (g.board.occFor g.player.other) cm op dp
          ++ L2.flatten ++ Gen.pawnPlainCaptures g.player (g.board.pawnsOf g.player) (g.board.occFor g.player.other) cm op dp
          ++ Lep)
        ++ Gen.knightCaptures (g.board.knightsOf g.player) (g.board.occFor g.player.other) cm op dp
        ++ Gen.diagSliderCaptures (g.board.diagSliders g.player) (g.board.occFor g.player.other) g.board.occupancy cm op dp
        ++ Gen.orthSliderCaptures (g.board.orthSliders g.player) (g.board.occFor g.player.other) g.board.occupancy cm op dp
        ++ Gen.kingCaptures g k (g.board.occFor g.player.other), cache0) := by
      unfold generateCaptures
      rw [lsb_king g k h]
      show (if BB.count (attackersOf g.board g.player k) > 1 then _ else _) = _
      rw [if_neg hn]
      show (do let checkMask ← checkMaskFor _ k _; capturesWith g k _ checkMask) = _
      rw [hcmeq]
      show capturesWith g k _ cm = _
      unfold capturesWith
      rw [hpins]
      simp only
      rw [hpc]
      rfl
    rw [e1] at hcaps
    have hcc := Option.some.inj hcaps
    simp only [Prod.mk.injEq] at hcc
    obtain ⟨ec, ecache⟩ := hcc
    subst ec; subst ecache
    have e2 : generateQuiets g cache0 = some (((Q1.flatten ++ Q2.flatten ++ Q3.flatten)
        ++ Gen.knightQuiets (g.board.knightsOf g.player) g.board.occupancy cm op dp
        ++ Gen.diagSliderQuiets (g.board.diagSliders g.player) g.board.occupancy cm op dp
        ++ Gen.orthSliderQuiets (g.board.orthSliders g.player) g.board.occupancy cm op dp
        ++ Gen.kingQuiets g k g.board.occupancy)
        ++ (if attackersOf g.board g.player k == 0#64 then Gen.castles g g.board.occupancy else [])) := by
      unfold generateQuiets
      rw [lsb_king g k h]
      show (if BB.count cache0.checkers > 1 then _ else _) = _
      rw [if_neg hn]
      show quietsWith g k cache0 = _
      unfold quietsWith
      show (do let p ← Gen.pawnQuiets g (g.board.pawnsOf g.player) g.board.occupancy cm op dp; _) = _
      rw [hpq]
      rfl
    rw [e2] at hquiets
    have := Option.some.inj hquiets
    subst this
    exact stages_nodup T g k h cm op dp ms L2 Q1 Q2 Q3 Lep hL2 hQ1 hQ2 hQ3 hLep sL2 sQ1 sQ2 sQ3

end Tcheran
