import TcheranVerif.Model.Fen
import TcheranVerif.Proofs.Game
/-!
# FEN: reading back what was written (C06, string level)

`parse_write_fields`: for every mailbox, side, castling rights, e.p. target, clock below 2^32 and ply
counter whose parity matches the side to move, the reader applied to the characters the writer produces
returns exactly those fields. The proof follows the grammar: run-length encoding of a rank and its inverse
(`lineItems_enc`, by induction on the rank with the pending-empties counter), eight ranks and seven
slashes (`more_format`), the one-character fields, and the two counters through the library's
`Nat.toDigits` / `Nat.ofDigitChars` round trip. `consistent_ofSquares`: the board the reader builds from
the mailbox has its three views in agreement.
-/

namespace Tcheran
namespace Fen


theorem digits_fold (l : List Char) (a : Nat) :
    l.foldl (fun acc c => acc * 10 + (c.toNat - 48)) a = Nat.ofDigitChars 10 l a := by
  unfold Nat.ofDigitChars
  induction l generalizing a with
  | nil => rfl
  | cons c cs ih =>
    simp only [List.foldl_cons]
    rw [ih]
    congr 1
    simp [Nat.mul_comm]

theorem toString_digits (n : Nat) : (toString n).toList = Nat.toDigits 10 n := by
  rw [Nat.toString_eq_repr, Nat.toList_repr]

theorem natU32_toString (n : Nat) (rest : List Char) (hn : n < 4294967296)
    (hr : ∀ c, rest.head? = some c → c.isDigit = false) :
    natU32 ((toString n).toList ++ rest) = some (n, rest) := by
  have hd : ∀ c ∈ (toString n).toList, c.isDigit = true := by
    intro c hc
    rw [toString_digits] at hc
    exact Nat.isDigit_of_mem_toDigits (by decide) (by decide) hc
  have htw : ((toString n).toList ++ rest).takeWhile Char.isDigit = (toString n).toList := by
    rw [List.takeWhile_append_of_pos hd]
    cases rest with
    | nil => simp
    | cons c cs =>
      have := hr c rfl
      simp [List.takeWhile_cons, this]
  have hdw : ((toString n).toList ++ rest).dropWhile Char.isDigit = rest := by
    rw [List.dropWhile_append_of_pos hd]
    cases rest with
    | nil => simp
    | cons c cs =>
      have := hr c rfl
      simp [List.dropWhile_cons, this]
  unfold natU32
  simp only [htw, hdw]
  have hne : (toString n).toList.isEmpty = false := by
    rw [toString_digits]
    cases h : Nat.toDigits 10 n with
    | nil => exact absurd h Nat.toDigits_ne_nil
    | cons _ _ => rfl
  rw [hne]
  simp only [Bool.false_eq_true, if_false]
  rw [digits_fold, toString_digits, Nat.ofDigitChars_ten_toDigits]
  rw [if_neg (by omega)]


/-- recursive form of the run-length encoder: `n` = pending empties -/
def enc : Nat → List (Option Piece) → List Char
  | n, [] => if n > 0 then (toString n).toList else []
  | n, none :: r => enc (n + 1) r
  | n, some p :: r => (if n > 0 then (toString n).toList else []) ++ [charOfPiece p] ++ enc 0 r

theorem formatRank_fold (rank : List (Option Piece)) (acc : List Char) (n : Nat) :
    (let st := rank.foldl (fun (st : List Char × Nat) sq =>
      match sq with
      | some p => (st.1 ++ (if st.2 > 0 then (toString st.2).toList else []) ++ [charOfPiece p], 0)
      | none => (st.1, st.2 + 1)) (acc, n)
     st.1 ++ (if st.2 > 0 then (toString st.2).toList else [])) = acc ++ enc n rank := by
  induction rank generalizing acc n with
  | nil => simp [enc]
  | cons x xs ih =>
    cases x with
    | none =>
      simp only [List.foldl_cons, enc]
      exact ih acc (n + 1)
    | some p =>
      simp only [List.foldl_cons, enc]
      rw [ih]
      simp [List.append_assoc]

theorem formatRank_eq (rank : List (Option Piece)) : formatRank rank = enc 0 rank := by
  have := formatRank_fold rank [] 0
  rw [List.nil_append] at this
  unfold formatRank
  simp only at this ⊢
  generalize List.foldl _ _ rank = st at this ⊢
  obtain ⟨a, n⟩ := st
  exact this

def isItemChar (c : Char) : Bool := (pieceOfChar? c).isSome || (emptyCount? c).isSome

theorem piece_char (p : Piece) : pieceOfChar? (charOfPiece p) = some p := by
  obtain ⟨k, pl⟩ := p
  cases k <;> cases pl <;> rfl

theorem digit_small : ∀ n : Fin 9, 0 < n.val → (toString n.val).toList = [Char.ofNat (48 + n.val)] ∧
    pieceOfChar? (Char.ofNat (48 + n.val)) = none ∧ emptyCount? (Char.ofNat (48 + n.val)) = some n.val := by
  decide

theorem lineItems_enc (rest : List Char) (hr : ∀ c, rest.head? = some c → isItemChar c = false) :
    ∀ (rank : List (Option Piece)) (n : Nat), n + rank.length ≤ 8 →
      lineItems (enc n rank ++ rest) = (List.replicate n none ++ rank, rest) := by
  have hrest : lineItems rest = ([], rest) := by
    cases rest with
    | nil => rfl
    | cons c cs =>
      have := hr c rfl
      unfold isItemChar at this
      simp only [Bool.or_eq_false_iff, Option.isSome_eq_false_iff, Option.isNone_iff_eq_none] at this
      unfold lineItems
      rw [this.1, this.2]
  have hdig : ∀ n, 0 < n → n ≤ 8 → ∀ tail sq r, lineItems tail = (sq, r) →
      lineItems ((toString n).toList ++ tail) = (List.replicate n none ++ sq, r) := by
    intro n h0 h8 tail sq r ht
    obtain ⟨e1, e2, e3⟩ := digit_small ⟨n, by omega⟩ h0
    simp only at e1 e2 e3
    rw [e1]
    show lineItems (Char.ofNat (48 + n) :: tail) = _
    unfold lineItems
    rw [e2, e3, ht]
  intro rank
  induction rank with
  | nil =>
    intro n hn
    simp only [enc]
    by_cases h0 : n > 0
    · rw [if_pos h0]
      have := hdig n h0 (by simpa using hn) rest [] rest hrest
      simpa using this
    · have : n = 0 := by omega
      subst this
      simpa using hrest
  | cons x xs ih =>
    intro n hn
    simp only [List.length_cons] at hn
    cases x with
    | none =>
      simp only [enc]
      rw [ih (n + 1) (by omega)]
      simp [List.replicate_succ', List.append_assoc]
    | some p =>
      simp only [enc]
      have hp : lineItems ([charOfPiece p] ++ enc 0 xs ++ rest) = (some p :: xs, rest) := by
        show lineItems (charOfPiece p :: (enc 0 xs ++ rest)) = _
        unfold lineItems
        rw [piece_char, ih 0 (by omega)]
        simp
      by_cases h0 : n > 0
      · rw [if_pos h0]
        have := hdig n h0 (by omega) ([charOfPiece p] ++ enc 0 xs ++ rest) (some p :: xs) rest hp
        simpa [List.append_assoc] using this
      · have : n = 0 := by omega
        subst this
        simpa using hp

theorem toList_ofFn (sq : Vector (Option Piece) 64) : sq.toList = List.ofFn (fun i : Fin 64 => sq[i]) := by
  apply List.ext_getElem
  · simp
  · intro i h1 h2
    rw [List.getElem_ofFn]
    simp only [Vector.getElem_toList, Fin.getElem_fin]

theorem flat_eq (sq : Vector (Option Piece) 64) :
    ((List.finRange 8).map (rankSquares sq)).flatten = sq.toList := by
  rw [toList_ofFn]
  simp only [List.ofFn_succ, List.ofFn_zero]
  rfl

theorem lineItems_nonempty (inp : List Char) (sq : List (Option Piece)) (r : List Char)
    (h : lineItems inp = (sq, r)) (hne : sq ≠ []) :
    ∃ c cs, inp = c :: cs ∧ ¬ ((pieceOfChar? c).isNone ∧ (emptyCount? c).isNone) := by
  cases inp with
  | nil => unfold lineItems at h; cases h; exact absurd rfl hne
  | cons c cs =>
    refine ⟨c, cs, rfl, ?_⟩
    intro hc
    unfold lineItems at h
    rw [Option.isNone_iff_eq_none.1 hc.1, Option.isNone_iff_eq_none.1 hc.2] at h
    cases h
    exact hne rfl

def NotItem (rest : List Char) : Prop := ∀ c, rest.head? = some c → isItemChar c = false

theorem fenLine_format (rank : List (Option Piece)) (rest : List Char) (hl : rank.length = 8) (hr : NotItem rest) :
    fenLine (formatRank rank ++ rest) = some (rank, rest) := by
  have hli := lineItems_enc rest hr rank 0 (by omega)
  simp only [List.replicate_zero, List.nil_append] at hli
  rw [← formatRank_eq] at hli
  obtain ⟨c, cs, hinp, hc⟩ := lineItems_nonempty _ rank rest hli (by intro e; rw [e] at hl; cases hl)
  unfold fenLine
  rw [hinp]
  simp only
  rw [if_neg hc, ← hinp, hli]
  simp [hl]

theorem more_format (rest : List Char) (hr : NotItem rest) :
    ∀ (rs : List (List (Option Piece))) (acc : List (List (Option Piece))), (∀ r ∈ rs, r.length = 8) →
      fenPosition.more rs.length (rs.flatMap (fun r => '/' :: formatRank r) ++ rest) acc = some (rs.reverse ++ acc, rest) := by
  intro rs
  induction rs with
  | nil => intro acc _; simp [fenPosition.more]
  | cons r rs ih =>
    intro acc h8
    have hr8 := h8 r List.mem_cons_self
    simp only [List.length_cons, List.flatMap_cons, List.cons_append, List.append_assoc]
    unfold fenPosition.more
    have hnext : NotItem (rs.flatMap (fun r => '/' :: formatRank r) ++ rest) := by
      cases rs with
      | nil => simpa using hr
      | cons x xs =>
        intro c hc
        simp only [List.flatMap_cons, List.cons_append, List.head?_cons, Option.some.injEq] at hc
        rw [← hc]; decide
    simp only
    rw [fenLine_format r _ hr8 hnext]
    simp only [Option.bind_eq_bind, Option.bind_some]
    rw [ih (r :: acc) (fun x hx => h8 x (List.mem_cons_of_mem _ hx))]
    simp

theorem fenPosition_format (sq : Vector (Option Piece) 64) (rest : List Char) (hr : NotItem rest) :
    fenPosition (formatBoard sq ++ rest) =
      some ((List.finRange 8).map (rankSquares sq), rest) := by
  have h8 : ∀ r : Fin 8, (rankSquares sq r).length = 8 := fun r => by simp [rankSquares]
  have hb : formatBoard sq ++ rest = formatRank (rankSquares sq 7) ++
      ((([6, 5, 4, 3, 2, 1, 0] : List (Fin 8)).map (rankSquares sq)).flatMap (fun r => '/' :: formatRank r) ++ rest) := by
    unfold formatBoard
    have hfr : (List.finRange 8).reverse = ([7, 6, 5, 4, 3, 2, 1, 0] : List (Fin 8)) := by decide
    rw [hfr]
    simp [List.intercalate, List.intersperse]
  rw [hb]
  unfold fenPosition
  have hnext : NotItem (((([6, 5, 4, 3, 2, 1, 0] : List (Fin 8)).map (rankSquares sq)).flatMap
      (fun r => '/' :: formatRank r)) ++ rest) := by
    intro c hc
    simp only [List.map_cons, List.flatMap_cons, List.cons_append, List.head?_cons, Option.some.injEq] at hc
    rw [← hc]; decide
  rw [fenLine_format _ _ (h8 7) hnext]
  simp only [Option.bind_eq_bind, Option.bind_some]
  have := more_format rest hr (([6, 5, 4, 3, 2, 1, 0] : List (Fin 8)).map (rankSquares sq)) [rankSquares sq 7]
    (by intro r hr; simp only [List.mem_map] at hr; obtain ⟨x, _, e⟩ := hr; rw [← e]; exact h8 x)
  simp only [List.length_map, List.length_cons, List.length_nil] at this
  rw [this]
  rfl

theorem toVector_ranks (sq : Vector (Option Piece) 64) :
    toVector ((List.finRange 8).map (rankSquares sq)) = some sq := by
  unfold toVector
  simp only [flat_eq]
  rw [dif_pos (by simp)]
  congr 1

theorem space1_one (c : Char) (rest : List Char) (hc : isSpace c = false) :
    space1 (' ' :: c :: rest) = some (c :: rest) := by
  unfold space1
  have h1 : isSpace ' ' = true := by decide
  simp only [h1, if_true]
  simp [List.dropWhile_cons, h1, hc]

theorem fenCastling_format (r : Rights) (rest : List Char) :
    fenCastling (formatCastling r ++ ' ' :: rest) = some (r, ' ' :: rest) := by
  obtain ⟨⟨wk, wq⟩, ⟨bk, bq⟩⟩ := r
  cases wk <;> cases wq <;> cases bk <;> cases bq <;>
    simp [formatCastling, fenCastling, Rights.none, List.takeWhile_cons, List.dropWhile_cons, isCastleChar]

theorem castling_head (r : Rights) : ∃ c cs, formatCastling r = c :: cs ∧ isSpace c = false := by
  obtain ⟨⟨wk, wq⟩, ⟨bk, bq⟩⟩ := r
  cases wk <;> cases wq <;> cases bk <;> cases bq <;> simp [formatCastling] <;> decide

theorem sq_notation' : ∀ s : Sq, Sq.ofNotation? (fileChar s.file) (rankChar s.rank) = some s ∧
    isSpace (fileChar s.file) = false := by
  decide +kernel

theorem sq_notation (s : Sq) : ∃ f rk, s.notation.toList = [f, rk] ∧ Sq.ofNotation? f rk = some s ∧ isSpace f = false :=
  ⟨fileChar s.file, rankChar s.rank, by simp [Sq.notation], (sq_notation' s).1, (sq_notation' s).2⟩

theorem fenEp_format (ep : Option Sq) (rest : List Char) :
    fenEp (formatEp ep ++ ' ' :: rest) = some (ep, ' ' :: rest) := by
  cases ep with
  | none => rfl
  | some s =>
    obtain ⟨f, rk, h1, h2, _⟩ := sq_notation s
    unfold formatEp
    simp only [h1]
    show fenEp (f :: rk :: ' ' :: rest) = _
    unfold fenEp
    split
    · rename_i heq
      simp only [List.cons.injEq] at heq
      have := heq.1
      subst this
      simp [Sq.ofNotation?] at h2
    · rename_i f' rk' r' heq
      simp only [List.cons.injEq] at heq
      obtain ⟨e1, e2, e3⟩ := heq
      subst e1; subst e2; subst e3
      rw [h2]
    · rename_i h
      exact absurd rfl (h f rk (' ' :: rest))

theorem ep_head (ep : Option Sq) : ∃ c cs, formatEp ep = c :: cs ∧ isSpace c = false := by
  cases ep with
  | none => exact ⟨'-', [], rfl, by decide⟩
  | some s =>
    obtain ⟨f, rk, h1, _, h3⟩ := sq_notation s
    exact ⟨f, [rk], h1, h3⟩

theorem digits_head (n : Nat) : ∃ c cs, (toString n).toList = c :: cs ∧ isSpace c = false := by
  cases h : (toString n).toList with
  | nil =>
    rw [toString_digits] at h
    exact absurd h Nat.toDigits_ne_nil
  | cons c cs =>
    refine ⟨c, cs, rfl, ?_⟩
    have : c.isDigit = true := by
      have hc : c ∈ (toString n).toList := by rw [h]; exact List.mem_cons_self
      rw [toString_digits] at hc
      exact Nat.isDigit_of_mem_toDigits (by decide) (by decide) hc
    unfold isSpace
    simp only [Bool.or_eq_false_iff, beq_eq_false_iff_ne, ne_eq]
    constructor <;> (intro e; subst e; simp [Char.isDigit] at this)

theorem optNumber_format (n : Nat) (rest : List Char) (hn : n < 4294967296)
    (hr : ∀ c, rest.head? = some c → c.isDigit = false) :
    optNumber (' ' :: (toString n).toList ++ rest) = (some n, rest) := by
  obtain ⟨c, cs, hd, hc⟩ := digits_head n
  unfold optNumber
  have hs : space1 (' ' :: (toString n).toList ++ rest) = some ((toString n).toList ++ rest) := by
    rw [hd]
    exact space1_one c (cs ++ rest) hc
  rw [hs]
  simp only
  rw [natU32_toString n rest hn hr]

theorem plies_roundtrip (plies : Nat) (p : Player) (hp : plies < 4000000000)
    (hpar : plies % 2 = if p = .black then 1 else 0) : pliesFromFullmove (plies / 2 + 1) p = plies := by
  unfold pliesFromFullmove u32Max
  cases p <;> simp at hpar ⊢ <;> omega

/-- **parse ∘ write = id** on the observable fields -/
theorem parse_write_fields (sq : Vector (Option Piece) 64) (p : Player) (r : Rights) (ep : Option Sq)
    (halfmove plies : Nat) (hh : halfmove < 4294967296) (hp : plies < 4000000000)
    (hpar : plies % 2 = if p = .black then 1 else 0) :
    parseFields (writeFields sq p r ep halfmove plies).toList =
      .ok { squares := sq, player := p, rights := r, ep := ep, halfmove := halfmove, plies := plies } := by
  have htext : (writeFields sq p r ep halfmove plies).toList = formatBoard sq ++ (' ' :: (if p = .white then 'w' else 'b') ::
      ' ' :: (formatCastling r ++ ' ' :: (formatEp ep ++ ' ' ::
      ((toString halfmove).toList ++ ' ' :: (toString (plies / 2 + 1)).toList)))) := by
    unfold writeFields
    rw [String.toList_ofList]
    simp only [List.append_assoc, List.cons_append, List.nil_append]
  rw [htext]
  unfold parseFields
  have hni : NotItem (' ' :: (if p = .white then 'w' else 'b') :: ' ' :: (formatCastling r ++ ' ' :: (formatEp ep ++ ' ' ::
      ((toString halfmove).toList ++ ' ' :: (toString (plies / 2 + 1)).toList)))) := by
    intro c hc
    simp only [List.head?_cons, Option.some.injEq] at hc
    rw [← hc]; decide
  rw [fenPosition_format sq _ hni]
  simp only [toVector_ranks]
  -- colour
  have hcol : isSpace (if p = .white then 'w' else 'b') = false := by cases p <;> decide
  rw [space1_one _ _ hcol]
  simp only [Option.bind_eq_bind, Option.bind_some]
  have hfc : fenColor ((if p = .white then 'w' else 'b') :: ' ' :: (formatCastling r ++ ' ' :: (formatEp ep ++ ' ' ::
      ((toString halfmove).toList ++ ' ' :: (toString (plies / 2 + 1)).toList)))) =
      some (p, ' ' :: (formatCastling r ++ ' ' :: (formatEp ep ++ ' ' ::
      ((toString halfmove).toList ++ ' ' :: (toString (plies / 2 + 1)).toList)))) := by
    cases p <;> rfl
  rw [hfc]
  simp only
  -- castling
  obtain ⟨cc, ccs, hcc, hccs⟩ := castling_head r
  have hsc : space1 (' ' :: (formatCastling r ++ ' ' :: (formatEp ep ++ ' ' ::
      ((toString halfmove).toList ++ ' ' :: (toString (plies / 2 + 1)).toList)))) =
      some (formatCastling r ++ ' ' :: (formatEp ep ++ ' ' ::
      ((toString halfmove).toList ++ ' ' :: (toString (plies / 2 + 1)).toList))) := by
    rw [hcc]; exact space1_one cc _ hccs
  rw [hsc]
  simp only [Option.bind_some]
  rw [fenCastling_format]
  simp only
  -- en passant
  obtain ⟨ec, ecs, hec, hecs⟩ := ep_head ep
  have hse : space1 (' ' :: (formatEp ep ++ ' ' ::
      ((toString halfmove).toList ++ ' ' :: (toString (plies / 2 + 1)).toList))) =
      some (formatEp ep ++ ' ' :: ((toString halfmove).toList ++ ' ' :: (toString (plies / 2 + 1)).toList)) := by
    rw [hec]; exact space1_one ec _ hecs
  rw [hse]
  simp only [Option.bind_some]
  rw [fenEp_format]
  simp only
  -- counters
  have h1 := optNumber_format halfmove (' ' :: (toString (plies / 2 + 1)).toList) hh
    (by intro c hc; simp only [List.head?_cons, Option.some.injEq] at hc; rw [← hc]; decide)
  simp only [List.cons_append] at h1
  rw [h1]
  simp only
  have h2 := optNumber_format (plies / 2 + 1) [] (by omega) (fun c hc => by simp at hc)
  simp only [List.append_nil, List.cons_append] at h2
  rw [h2]
  simp only [space0, List.dropWhile_nil, ne_eq, not_true_eq_false, if_false, Option.getD_some]
  rw [plies_roundtrip plies p hp hpar]
end Fen

/-! ### the board built from a mailbox -/
namespace Board

theorem mem_collect (sq : Vector (Option Piece) 64) (pc : Piece) (l : List Sq) (acc : BB) (t : Sq) :
    mem (l.foldl (fun acc s => if sq[s.val] = some pc then acc ||| bb s else acc) acc) t =
      (mem acc t || (decide (t ∈ l) && decide (sq[t.val] = some pc))) := by
  induction l generalizing acc with
  | nil => simp
  | cons x xs ih =>
    rw [List.foldl_cons, ih]
    by_cases hx : sq[x.val] = some pc
    · rw [if_pos hx, mem_or, mem_bb]
      by_cases hxt : x = t
      · subst hxt; simp [hx]
      · have : t ≠ x := fun e => hxt e.symm
        simp [hxt, this]
    · rw [if_neg hx]
      by_cases hxt : x = t
      · subst hxt; simp [hx]
      · have : t ≠ x := fun e => hxt e.symm
        simp [this]

theorem mem_collect_all (sq : Vector (Option Piece) 64) (pc : Piece) (t : Sq) :
    mem ((List.finRange 64).foldl (fun acc s => if sq[s.val] = some pc then acc ||| bb s else acc) 0#64) t =
      decide (sq[t.val] = some pc) := by
  rw [mem_collect, mem_zero]
  simp [List.mem_finRange]

theorem consistent_ofSquares (sq : Vector (Option Piece) 64) : (ofSquares sq).Consistent := by
  constructor
  · intro k s
    have hp : (ofSquares sq).pieceAt s = sq[s.val] := rfl
    rw [hp]
    cases k <;>
      (simp only [ofSquares, byKind, mem_or, mem_collect_all]
       cases h : sq[s.val] with
       | none => simp
       | some pc => obtain ⟨kk, pl⟩ := pc; cases kk <;> cases pl <;> simp)
  · intro p s
    have hp : (ofSquares sq).pieceAt s = sq[s.val] := rfl
    rw [hp]
    cases p <;>
      (simp only [ofSquares, occFor, mem_or, mem_collect_all]
       cases h : sq[s.val] with
       | none => simp
       | some pc => obtain ⟨kk, pl⟩ := pc; cases kk <;> cases pl <;> simp)

end Board

namespace Fen
open Board Game

/-- **parse ∘ write**: reading the FEN of a position whose key and accumulators are in step with its board
gives back that position — all three board views, side, rights, e.p. target, both clocks, key, accumulators
(the history stack, which a FEN does not carry, is empty) -/
theorem parse_write (c : Cfg) (g : Game) (hs : Sync c g) (hh : g.halfmove < 4294967296) (hp : g.plies < 4000000000)
    (hpar : g.plies % 2 = if g.player = .black then 1 else 0) (hmen : tooManyMen g.board.squares = false) :
    parse c (write g) = .ok { g with history := [] } := by
  unfold parse write
  rw [parse_write_fields g.board.squares g.player g.rights g.ep g.halfmove g.plies hh hp hpar]
  simp only
  rw [if_neg (by rw [hmen]; decide)]
  have hb : Board.ofSquares g.board.squares = g.board :=
    consistent_ext _ _ (consistent_ofSquares _) hs.cons rfl
  rw [hb]
  unfold Game.fromState
  congr 1
  have hk := hs.key
  have hi := hs.inc
  rw [hash_eq_fullHash c g.board hs.cons, ← hk, ← hi]

/-- **write ∘ parse** on canonical text: reading a FEN the writer produced and writing the result gives the
same text again -/
theorem write_parse_canonical (c : Cfg) (g : Game) (hs : Sync c g) (hh : g.halfmove < 4294967296)
    (hp : g.plies < 4000000000) (hpar : g.plies % 2 = if g.player = .black then 1 else 0)
    (hmen : tooManyMen g.board.squares = false) :
    ∃ g', parse c (write g) = .ok g' ∧ write g' = write g := by
  exact ⟨_, parse_write c g hs hh hp hpar hmen, rfl⟩

/-- a board with more than sixteen men of one colour is reported as an error, never built -/
theorem parse_crowded (c : Cfg) (s : String) (f : Fields) (hf : parseFields s.toList = .ok f)
    (h : tooManyMen f.squares = true) : parse c s = .err := by
  unfold parse
  rw [hf]
  simp only
  rw [if_pos h]

/-- every position the reader builds has at most sixteen men a side -/
theorem parse_ok_men (c : Cfg) (s : String) (g : Game) (h : parse c s = .ok g) :
    tooManyMen g.board.squares = false := by
  unfold parse at h
  cases hf : parseFields s.toList with
  | ok f =>
    rw [hf] at h
    simp only at h
    split at h
    · cases h
    · rename_i hm
      have := Outcome.ok.inj h
      rw [← this]
      show tooManyMen (Board.ofSquares f.squares).squares = false
      have e : (Board.ofSquares f.squares).squares = f.squares := rfl
      rw [e]
      simpa using hm
  | err => rw [hf] at h; cases h
  | panic => rw [hf] at h; cases h

end Fen
end Tcheran
