import TcheranVerif.Proofs.Bits
import TcheranVerif.Model.Board
/-!
# The three board views agree (`Consistent`), and `setAt` / `removeAt` are mutually inverse

`Consistent b`: every by-kind and by-colour bitboard is exactly the set of squares whose mailbox
entry has that kind / colour. A consistent board is determined by its mailbox (`consistent_ext`),
which turns the inverse laws into statements about the mailbox plus preservation of consistency.
-/

namespace Tcheran
namespace Board

def Consistent (b : Board) : Prop :=
  (∀ (k : PieceKind) (s : Sq), mem (b.byKind k) s = decide ((b.pieceAt s).map (·.kind) = some k)) ∧
  (∀ (p : Player) (s : Sq), mem (b.occFor p) s = decide ((b.pieceAt s).map (·.player) = some p))

theorem byKind_setKind (b : Board) (k k' : PieceKind) (v : BB) :
    (b.setKind k v).byKind k' = if k' = k then v else b.byKind k' := by
  cases k <;> cases k' <;> simp [setKind, byKind]

theorem occFor_setKind (b : Board) (k : PieceKind) (v : BB) (p : Player) :
    (b.setKind k v).occFor p = b.occFor p := by
  cases k <;> cases p <;> rfl

theorem squares_setKind (b : Board) (k : PieceKind) (v : BB) : (b.setKind k v).squares = b.squares := by
  cases k <;> rfl

theorem byKind_setOcc (b : Board) (p : Player) (v : BB) (k : PieceKind) :
    (b.setOcc p v).byKind k = b.byKind k := by
  cases p <;> cases k <;> rfl

theorem occFor_setOcc (b : Board) (p p' : Player) (v : BB) :
    (b.setOcc p v).occFor p' = if p' = p then v else b.occFor p' := by
  cases p <;> cases p' <;> simp [setOcc, occFor]

theorem squares_setOcc (b : Board) (p : Player) (v : BB) : (b.setOcc p v).squares = b.squares := by
  cases p <;> rfl

/-! ### effect of `setAt` / `removeAt` on each view -/

theorem pieceAt_setAt (b : Board) (s t : Sq) (pc : Piece) :
    (b.setAt s pc).pieceAt t = if t = s then some pc else b.pieceAt t := by
  unfold setAt pieceAt
  simp only [squares_setOcc, squares_setKind]
  rw [Vector.getElem_set]
  by_cases h : t = s
  · subst h; simp
  · have : ¬ s.val = t.val := fun e => h (Fin.ext e.symm)
    simp [h, this]

theorem byKind_setAt (b : Board) (s : Sq) (pc : Piece) (k : PieceKind) :
    (b.setAt s pc).byKind k = if k = pc.kind then b.byKind k ||| bb s else b.byKind k := by
  unfold setAt
  simp only
  show ((b.setKind pc.kind (b.byKind pc.kind ||| bb s)).setOcc pc.player _).byKind k = _
  rw [byKind_setOcc, byKind_setKind]
  by_cases h : k = pc.kind
  · subst h; simp
  · simp [h]

theorem occFor_setAt (b : Board) (s : Sq) (pc : Piece) (p : Player) :
    (b.setAt s pc).occFor p = if p = pc.player then b.occFor p ||| bb s else b.occFor p := by
  unfold setAt
  simp only
  show ((b.setKind pc.kind _).setOcc pc.player ((b.setKind pc.kind _).occFor pc.player ||| bb s)).occFor p = _
  rw [occFor_setOcc, occFor_setKind, occFor_setKind]
  by_cases h : p = pc.player
  · subst h; simp
  · simp [h]

theorem removeAt_none (b : Board) (s : Sq) (h : b.pieceAt s = none) : b.removeAt s = b := by
  unfold removeAt; rw [h]

theorem pieceAt_removeAt (b : Board) (s t : Sq) :
    (b.removeAt s).pieceAt t = if t = s then none else b.pieceAt t := by
  cases h : b.pieceAt s with
  | none =>
    rw [removeAt_none b s h]
    by_cases ht : t = s
    · subst ht; simp [h]
    · simp [ht]
  | some pc =>
    unfold removeAt
    rw [h]
    simp only
    unfold pieceAt
    simp only [squares_setOcc, squares_setKind]
    rw [Vector.getElem_set]
    by_cases ht : t = s
    · subst ht; simp
    · have : ¬ s.val = t.val := fun e => ht (Fin.ext e.symm)
      simp [ht, this]

theorem byKind_removeAt (b : Board) (s : Sq) (pc : Piece) (h : b.pieceAt s = some pc) (k : PieceKind) :
    (b.removeAt s).byKind k = if k = pc.kind then b.byKind k ^^^ bb s else b.byKind k := by
  unfold removeAt
  rw [h]
  simp only
  show ((b.setKind pc.kind (b.byKind pc.kind ^^^ bb s)).setOcc pc.player _).byKind k = _
  rw [byKind_setOcc, byKind_setKind]
  by_cases hk : k = pc.kind
  · subst hk; simp
  · simp [hk]

theorem occFor_removeAt (b : Board) (s : Sq) (pc : Piece) (h : b.pieceAt s = some pc) (p : Player) :
    (b.removeAt s).occFor p = if p = pc.player then b.occFor p &&& ~~~(bb s) else b.occFor p := by
  unfold removeAt
  rw [h]
  simp only
  show ((b.setKind pc.kind _).setOcc pc.player ((b.setKind pc.kind _).occFor pc.player &&& ~~~(bb s))).occFor p = _
  rw [occFor_setOcc, occFor_setKind, occFor_setKind]
  by_cases hp : p = pc.player
  · subst hp; simp
  · simp [hp]

/-! ### consistency is preserved -/

theorem consistent_setAt (b : Board) (s : Sq) (pc : Piece) (hc : Consistent b) (he : b.pieceAt s = none) :
    Consistent (b.setAt s pc) := by
  constructor
  · intro k t
    rw [byKind_setAt, pieceAt_setAt]
    by_cases ht : t = s
    · subst ht
      by_cases hk : k = pc.kind
      · subst hk; simp [mem_or, mem_bb]
      · have := hc.1 k t
        rw [he] at this
        simp [hk, this]
        exact fun e => hk e.symm
    · by_cases hk : k = pc.kind
      · subst hk; simp [mem_or, mem_bb, ht, hc.1]
      · simp [hk, ht, hc.1]
  · intro p t
    rw [occFor_setAt, pieceAt_setAt]
    by_cases ht : t = s
    · subst ht
      by_cases hp : p = pc.player
      · subst hp; simp [mem_or, mem_bb]
      · have := hc.2 p t
        rw [he] at this
        simp [hp, this]
        exact fun e => hp e.symm
    · by_cases hp : p = pc.player
      · subst hp; simp [mem_or, mem_bb, ht, hc.2]
      · simp [hp, ht, hc.2]

theorem consistent_removeAt (b : Board) (s : Sq) (hc : Consistent b) : Consistent (b.removeAt s) := by
  cases h : b.pieceAt s with
  | none => rw [removeAt_none b s h]; exact hc
  | some pc =>
    constructor
    · intro k t
      rw [byKind_removeAt b s pc h, pieceAt_removeAt]
      by_cases ht : t = s
      · subst ht
        by_cases hk : k = pc.kind
        · subst hk
          have := hc.1 pc.kind t
          rw [h] at this
          simp [mem_xor, mem_bb, this]
        · have := hc.1 k t
          rw [h] at this
          simp only [hk, if_false, this, if_true, Option.map_some, Option.map_none]
          simp
          exact fun e => hk e.symm
      · by_cases hk : k = pc.kind
        · subst hk; simp [mem_xor, mem_bb, ht, hc.1]
        · simp [hk, ht, hc.1]
    · intro p t
      rw [occFor_removeAt b s pc h, pieceAt_removeAt]
      by_cases ht : t = s
      · subst ht
        by_cases hp : p = pc.player
        · subst hp; simp [mem_and, mem_not, mem_bb]
        · have := hc.2 p t
          rw [h] at this
          simp only [hp, if_false, this, if_true, Option.map_some, Option.map_none]
          simp
          exact fun e => hp e.symm
      · by_cases hp : p = pc.player
        · subst hp; simp [mem_and, mem_not, mem_bb, ht, hc.2]
        · simp [hp, ht, hc.2]

/-- a consistent board is determined by its mailbox -/
theorem consistent_ext (b1 b2 : Board) (h1 : Consistent b1) (h2 : Consistent b2)
    (hs : b1.squares = b2.squares) : b1 = b2 := by
  have hp : ∀ s, b1.pieceAt s = b2.pieceAt s := fun s => by unfold pieceAt; rw [hs]
  have hk : ∀ k, b1.byKind k = b2.byKind k := fun k => by
    apply ext_mem; intro t; rw [h1.1, h2.1, hp]
  have ho : ∀ p, b1.occFor p = b2.occFor p := fun p => by
    apply ext_mem; intro t; rw [h1.2, h2.2, hp]
  cases b1; cases b2
  simp only [Board.mk.injEq]
  exact ⟨hk .pawn, hk .knight, hk .bishop, hk .rook, hk .queen, hk .king, ho .white, ho .black, hs⟩

theorem squares_ext (v w : Vector (Option Piece) 64) (h : ∀ s : Sq, v[s.val] = w[s.val]) : v = w := by
  apply Vector.ext
  intro i hi
  exact h ⟨i, hi⟩

/-- **removeAt ∘ setAt = id** on an empty square of a consistent board -/
theorem removeAt_setAt (b : Board) (s : Sq) (pc : Piece) (hc : Consistent b) (he : b.pieceAt s = none) :
    (b.setAt s pc).removeAt s = b := by
  apply consistent_ext _ _ (consistent_removeAt _ _ (consistent_setAt b s pc hc he)) hc
  apply squares_ext
  intro t
  have := pieceAt_removeAt (b.setAt s pc) s t
  rw [pieceAt_setAt] at this
  unfold pieceAt at this he
  rw [this]
  by_cases ht : t = s
  · subst ht; simp [he]
  · simp [ht]

/-- **setAt ∘ removeAt = id** for the piece that stood there -/
theorem setAt_removeAt (b : Board) (s : Sq) (pc : Piece) (hc : Consistent b) (hp : b.pieceAt s = some pc) :
    (b.removeAt s).setAt s pc = b := by
  have hrem : (b.removeAt s).pieceAt s = none := by rw [pieceAt_removeAt]; simp
  apply consistent_ext _ _ (consistent_setAt _ s pc (consistent_removeAt b s hc) hrem) hc
  apply squares_ext
  intro t
  have := pieceAt_setAt (b.removeAt s) s t pc
  rw [pieceAt_removeAt] at this
  unfold pieceAt at this hp
  rw [this]
  by_cases ht : t = s
  · subst ht; simp [hp]
  · simp [ht]

theorem consistent_empty : Consistent Board.empty := by
  constructor
  · intro k s
    cases k <;> simp [Board.empty, byKind, pieceAt, mem_zero]
  · intro p s
    cases p <;> simp [Board.empty, occFor, pieceAt, mem_zero]

end Board
end Tcheran
