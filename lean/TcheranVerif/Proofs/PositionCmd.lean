import TcheranVerif.Model.PositionCmd
import TcheranVerif.Proofs.SearchBasics
/-!
# The `position` command replays a legal game move for move (C17)

`pseudo_key_inj`: among the pseudo-legal moves of a position, (source, destination, promotion) determines the
move — the capture / en-passant / castling / promotion label follows from the board (pawn geometry decided by
the kernel, a king step never reaches a castling destination). Hence `expect_matching` finds exactly the move
meant (`applyText_legal`), and with C01 (`generate_exact`) and C02 (`make_move_legal_total`, `ginv_apply`)
the whole command is the rules' replay (`position_replays`).
-/

namespace Tcheran
open Board Game Rules

theorem pawn_dst_dec : ∀ s : Sq, ∀ p ∈ Geo.players', ∀ df ∈ ([-1, 1] : List Int),
    ((offset s 0 (fwd p)).isNone ∨ offset s 0 (fwd p) ≠ offset s df (fwd p)) ∧
    ((offset s 0 (2 * fwd p)).isNone ∨ offset s 0 (2 * fwd p) ≠ offset s df (fwd p)) ∧
    ((offset s 0 (fwd p)).isNone ∨ offset s 0 (fwd p) ≠ offset s 0 (2 * fwd p)) := by
  decide +kernel

theorem pawn_dst_facts (s : Sq) (p : Player) (hp : p ∈ Geo.players') (df : Int) (hdf : df ∈ ([-1, 1] : List Int)) :
    (∀ t1 t, offset s 0 (fwd p) = some t1 → offset s df (fwd p) = some t → t1 ≠ t) ∧
    (∀ t2 t, offset s 0 (2 * fwd p) = some t2 → offset s df (fwd p) = some t → t2 ≠ t) ∧
    (∀ t1 t2, offset s 0 (fwd p) = some t1 → offset s 0 (2 * fwd p) = some t2 → t1 ≠ t2) := by
  obtain ⟨h1, h2, h3⟩ := pawn_dst_dec s p hp df hdf
  refine ⟨fun t1 t o1 o2 e => ?_, fun t2 t o1 o2 e => ?_, fun t1 t2 o1 o2 e => ?_⟩
  · rcases h1 with h | h
    · rw [o1] at h; cases h
    · rw [o1, o2, e] at h; exact h rfl
  · rcases h2 with h | h
    · rw [o1] at h; cases h
    · rw [o1, o2, e] at h; exact h rfl
  · rcases h3 with h | h
    · rw [o1] at h; cases h
    · rw [o1, o2, e] at h; exact h rfl

theorem king_step_not_castle : ∀ p ∈ Geo.players', ∀ d ∈ kingDeltas,
    offset (kingStart p) d.1 d.2 ≠ some (kingsideCastleDest p) ∧
    offset (kingStart p) d.1 d.2 ≠ some (queensideCastleDest p) := by decide +kernel

theorem qp_key (s t : Sq) (pr : Promo) : (Move.quietPromotion s t pr).src = s ∧
    (Move.quietPromotion s t pr).promotion = some pr := by cases pr <;> exact ⟨rfl, rfl⟩
theorem cp_key (s t : Sq) (pr : Promo) : (Move.capturePromotion s t pr).promotion = some pr := by cases pr <;> rfl

/-- among the moves of one man, (destination, promotion) determines the move -/
theorem piece_key_inj (pos : Pos) (s : Sq) (pc : Piece) (a b : Move)
    (ha : a ∈ pieceMoves pos s pc) (hb : b ∈ pieceMoves pos s pc)
    (hd : a.dst = b.dst) (hp : a.promotion = b.promotion) : a = b := by
  have step : ∀ deltas, a ∈ stepMoves pos.board pos.player s deltas → b ∈ stepMoves pos.board pos.player s deltas → a = b := by
    intro deltas h1 h2
    obtain ⟨_, _, t, _, h1⟩ := (mem_stepMoves _ _ _ _ _).1 h1
    obtain ⟨_, _, u, _, h2⟩ := (mem_stepMoves _ _ _ _ _).1 h2
    rcases h1 with ⟨e1, r1⟩ | ⟨x, e1, _, r1⟩ <;> rcases h2 with ⟨e2, r2⟩ | ⟨y, e2, _, r2⟩ <;>
      (subst r1; subst r2; simp only [Move.quiet, Move.capture] at hd; subst hd) <;>
      first | rfl | (rw [e1] at e2; cases e2)
  have slide : ∀ (F : List Dir), a ∈ F.flatMap (fun d => slideMoves pos.board pos.player s (ray d s)) →
      b ∈ F.flatMap (fun d => slideMoves pos.board pos.player s (ray d s)) → a = b := by
    intro F h1 h2
    obtain ⟨_, _, h1⟩ := List.mem_flatMap.1 h1
    obtain ⟨_, _, h2⟩ := List.mem_flatMap.1 h2
    obtain ⟨t, _, h1⟩ := (mem_slideMoves _ _ _ _ _).1 h1
    obtain ⟨u, _, h2⟩ := (mem_slideMoves _ _ _ _ _).1 h2
    rcases h1 with ⟨e1, r1⟩ | ⟨x, e1, _, r1⟩ <;> rcases h2 with ⟨e2, r2⟩ | ⟨y, e2, _, r2⟩ <;>
      (subst r1; subst r2; simp only [Move.quiet, Move.capture] at hd; subst hd) <;>
      first | rfl | (rw [e1] at e2; cases e2)
  unfold pieceMoves at ha hb
  obtain ⟨k, pl⟩ := pc
  cases k <;> simp only at ha hb
  · -- pawn
    have hpl := Geo.mem_players' pos.player
    rcases (mem_pawnMoves pos s a).1 ha with ⟨t1, o1, e1, h1⟩ | ⟨df, hdf, t, o1, h1⟩ <;>
    rcases (mem_pawnMoves pos s b).1 hb with ⟨u1, o2, e2, h2⟩ | ⟨dg, hdg, u, o2, h2⟩
    · -- push / push
      rw [o1] at o2; cases o2
      rcases h1 with ⟨r1, pr, _, q1⟩ | ⟨r1, q1⟩ | ⟨_, t2, o3, _, q1⟩ <;>
      rcases h2 with ⟨r2, pr', _, q2⟩ | ⟨r2, q2⟩ | ⟨_, u2, o4, _, q2⟩
      · subst q1; subst q2
        rw [(qp_key s t1 pr).2, (qp_key s t1 pr').2] at hp
        cases hp; rfl
      · exact absurd r1 r2
      · subst q1; subst q2
        rw [(qp_key s t1 pr).2] at hp; cases hp
      · exact absurd r2 r1
      · subst q1; subst q2; rfl
      · subst q1; subst q2
        simp only [Move.quiet] at hd
        exact absurd hd ((pawn_dst_facts s pos.player hpl 1 (by simp)).2.2 t1 u2 o1 o4)
      · subst q1; subst q2
        rw [(qp_key s t1 pr').2] at hp; cases hp
      · subst q1; subst q2
        simp only [Move.quiet] at hd
        exact absurd hd.symm ((pawn_dst_facts s pos.player hpl 1 (by simp)).2.2 t1 t2 o1 o3)
      · rw [o3] at o4; cases o4
        subst q1; subst q2; rfl
    · -- push / capture
      exfalso
      have hbd : b.dst = u := by
        rcases h2 with ⟨x, _, _, ⟨_, pr, _, q⟩ | ⟨_, q⟩⟩ | ⟨_, _, q⟩
        · rw [q, cp_dst]
        · rw [q]; rfl
        · rw [q]; rfl
      rcases h1 with ⟨_, pr, _, q1⟩ | ⟨_, q1⟩ | ⟨_, t2, o3, _, q1⟩
      · rw [q1, qp_dst, hbd] at hd
        exact (pawn_dst_facts s pos.player hpl dg hdg).1 t1 u o1 o2 hd
      · rw [q1, hbd] at hd
        exact (pawn_dst_facts s pos.player hpl dg hdg).1 t1 u o1 o2 hd
      · rw [q1, hbd] at hd
        exact (pawn_dst_facts s pos.player hpl dg hdg).2.1 t2 u o3 o2 hd
    · -- capture / push
      exfalso
      have had : a.dst = t := by
        rcases h1 with ⟨x, _, _, ⟨_, pr, _, q⟩ | ⟨_, q⟩⟩ | ⟨_, _, q⟩
        · rw [q, cp_dst]
        · rw [q]; rfl
        · rw [q]; rfl
      rcases h2 with ⟨_, pr, _, q2⟩ | ⟨_, q2⟩ | ⟨_, u2, o3, _, q2⟩
      · rw [q2, qp_dst, had] at hd
        exact (pawn_dst_facts s pos.player hpl df hdf).1 u1 t o2 o1 hd.symm
      · rw [q2, had] at hd
        exact (pawn_dst_facts s pos.player hpl df hdf).1 u1 t o2 o1 hd.symm
      · rw [q2, had] at hd
        exact (pawn_dst_facts s pos.player hpl df hdf).2.1 u2 t o3 o1 hd.symm
    · -- capture / capture
      have had : a.dst = t := by
        rcases h1 with ⟨x, _, _, ⟨_, pr, _, q⟩ | ⟨_, q⟩⟩ | ⟨_, _, q⟩
        · rw [q, cp_dst]
        · rw [q]; rfl
        · rw [q]; rfl
      have hbd : b.dst = u := by
        rcases h2 with ⟨x, _, _, ⟨_, pr, _, q⟩ | ⟨_, q⟩⟩ | ⟨_, _, q⟩
        · rw [q, cp_dst]
        · rw [q]; rfl
        · rw [q]; rfl
      have htu : t = u := by rw [← had, ← hbd]; exact hd
      subst htu
      rcases h1 with ⟨x, ex, _, ⟨r1, pr, _, q1⟩ | ⟨r1, q1⟩⟩ | ⟨ex, _, q1⟩ <;>
      rcases h2 with ⟨y, ey, _, ⟨r2, pr', _, q2⟩ | ⟨r2, q2⟩⟩ | ⟨ey, _, q2⟩
      · subst q1; subst q2
        rw [cp_key, cp_key] at hp; cases hp; rfl
      · exact absurd r1 r2
      · rw [ex] at ey; cases ey
      · exact absurd r2 r1
      · subst q1; subst q2; rfl
      · rw [ex] at ey; cases ey
      · rw [ey] at ex; cases ex
      · rw [ey] at ex; cases ex
      · subst q1; subst q2; rfl
  · exact step _ ha hb
  · exact slide _ ha hb
  · exact slide _ ha hb
  · exact slide _ ha hb
  · exact step _ ha hb

open Board Game Rules UciMove

theorem castle_dst (pos : Pos) (m : Move) (h : m ∈ castleMoves pos) :
    m.dst = kingsideCastleDest pos.player ∨ m.dst = queensideCastleDest pos.player := by
  obtain ⟨rf, rt, _, _, hsq, _⟩ := castle_move_facts2 pos m h
  unfold castleSquares at hsq
  split at hsq
  · left; assumption
  · split at hsq
    · right; assumption
    · cases hsq

/-- **(source, destination, promotion) determines a pseudo-legal move** -/
theorem pseudo_key_inj (pos : Pos) (a b : Move) (ha : a ∈ pseudoMoves pos) (hb : b ∈ pseudoMoves pos)
    (hk : keyOf a = keyOf b) : a = b := by
  unfold keyOf at hk
  simp only [Text.mk.injEq] at hk
  obtain ⟨hs, hd, hp⟩ := hk
  have split : ∀ m, m ∈ pseudoMoves pos →
      (∃ s pc, at' pos.board s = some pc ∧ pc.player = pos.player ∧ m ∈ pieceMoves pos s pc) ∨ m ∈ castleMoves pos := by
    intro m hm
    unfold pseudoMoves at hm
    rcases List.mem_append.1 hm with h | h
    · left
      obtain ⟨s, _, h⟩ := List.mem_flatMap.1 h
      cases hat : at' pos.board s with
      | none => rw [hat] at h; cases h
      | some pc =>
        rw [hat] at h
        simp only at h
        split at h
        · rename_i hpl; exact ⟨s, pc, hat, hpl, h⟩
        · cases h
    · exact Or.inr h
  rcases split a ha with ⟨s, pc, hat, hpl, hma⟩ | hca <;> rcases split b hb with ⟨s', pc', hat', hpl', hmb⟩ | hcb
  · have e1 := (piece_move_src pos s pc a hat hma).1
    have e2 := (piece_move_src pos s' pc' b hat' hmb).1
    have : s = s' := by rw [← e1, ← e2]; exact hs
    subst this
    rw [hat] at hat'; cases hat'
    exact piece_key_inj pos s pc a b hma hmb hd hp
  · -- a: a man's move, b: castling
    exfalso
    obtain ⟨rf, rt, hbm, hking, _⟩ := castle_move_facts2 pos b hcb
    have e1 := (piece_move_src pos s pc a hat hma).1
    have hbs : b.src = kingStart pos.player := by rw [hbm]; rfl
    have : s = kingStart pos.player := by rw [← e1, hs, hbs]
    subst this
    rw [hat] at hking; cases hking
    unfold pieceMoves at hma
    simp only at hma
    obtain ⟨d, hdd, t, ho, h⟩ := (mem_stepMoves _ _ _ _ _).1 hma
    have hat : a.dst = t := by rcases h with ⟨_, e⟩ | ⟨_, _, _, e⟩ <;> rw [e] <;> rfl
    have hk := king_step_not_castle pos.player (Geo.mem_players' _) d hdd
    rcases castle_dst pos b hcb with e | e
    · exact hk.1 (by rw [ho, ← hat, hd, e])
    · exact hk.2 (by rw [ho, ← hat, hd, e])
  · exfalso
    obtain ⟨rf, rt, ham, hking, _⟩ := castle_move_facts2 pos a hca
    have e2 := (piece_move_src pos s' pc' b hat' hmb).1
    have has : a.src = kingStart pos.player := by rw [ham]; rfl
    have : s' = kingStart pos.player := by rw [← e2, ← hs, has]
    subst this
    rw [hat'] at hking; cases hking
    unfold pieceMoves at hmb
    simp only at hmb
    obtain ⟨d, hdd, t, ho, h⟩ := (mem_stepMoves _ _ _ _ _).1 hmb
    have hbt : b.dst = t := by rcases h with ⟨_, e⟩ | ⟨_, _, _, e⟩ <;> rw [e] <;> rfl
    have hk := king_step_not_castle pos.player (Geo.mem_players' _) d hdd
    rcases castle_dst pos a hca with e | e
    · exact hk.1 (by rw [ho, ← hbt, ← hd, e])
    · exact hk.2 (by rw [ho, ← hbt, ← hd, e])
  · obtain ⟨_, _, ham, _⟩ := castle_move_facts2 pos a hca
    obtain ⟨_, _, hbm, _⟩ := castle_move_facts2 pos b hcb
    rw [ham, hbm, hd]

theorem legal_key_inj (pos : Pos) (a b : Move) (ha : a ∈ legalMoves pos) (hb : b ∈ legalMoves pos)
    (hk : keyOf a = keyOf b) : a = b := by
  unfold legalMoves at ha hb
  exact pseudo_key_inj pos a b (List.mem_filter.1 ha).1 (List.mem_filter.1 hb).1 hk

/-- one move text: `expect_matching` finds the move meant, `make_move` plays it -/
theorem applyText_legal (T : SliderTables) (g : Game) (h : Search.SInv g) (m : Move)
    (hl : m ∈ legalMoves (ofGame g)) (hfit : (generateLegal g).isSome = true) :
    applyText g (keyOf m) = makeMove theCfg g m := by
  obtain ⟨k, hk⟩ := posH_of_ginv g h.1 h.2
  obtain ⟨caps, cache, quiets, h1, h2, h3⟩ := generate_exact T g k hk
  obtain ⟨l, hgl⟩ : ∃ l, generateLegal g = some l := Option.isSome_iff_exists.1 hfit
  have hmem : ∀ x, x ∈ l ↔ x ∈ legalMoves (ofGame g) := by
    intro x
    unfold generateLegal at hgl
    rw [h1] at hgl
    change (do let quiets ← generateQuiets g cache; _) = _ at hgl
    rw [h2] at hgl
    change (if (caps ++ quiets).length > 218 then none else _) = _ at hgl
    split at hgl
    · cases hgl
    · have : l = caps ++ quiets := by
        have := Option.some.inj hgl
        exact this.symm
      rw [this]; exact h3 x
  unfold applyText
  rw [hgl]
  simp only [Option.bind_eq_bind, Option.bind_some]
  have hfind : l.find? (fun x => x.src = (keyOf m).src ∧ x.dst = (keyOf m).dst ∧ x.promotion = (keyOf m).promotion) = some m := by
    cases hf : l.find? (fun x => x.src = (keyOf m).src ∧ x.dst = (keyOf m).dst ∧ x.promotion = (keyOf m).promotion) with
    | none =>
      have := List.find?_eq_none.1 hf m ((hmem m).2 hl)
      simp [keyOf] at this
    | some x =>
      have hx := List.find?_some hf
      have hxm := List.mem_of_find?_eq_some hf
      simp only [keyOf] at hx
      have hx := of_decide_eq_true hx
      have : keyOf x = keyOf m := by unfold keyOf; rw [hx.1, hx.2.1, hx.2.2]
      rw [legal_key_inj (ofGame g) x m ((hmem x).1 hxm) hl this]
  rw [hfind]
  rfl

/-- **position_replays**: a legal game given as move texts is replayed move for move -/
theorem position_replays (T : SliderTables) : ∀ (ms : List Move) (g : Game) (pos' : Pos), Search.SInv g →
    LegalPath (ofGame g) ms pos' →
    (∀ k gk, makeMoves theCfg g (ms.take k) = some gk → (generateLegal gk).isSome = true) →
    ∃ g', positionCmd g (ms.map keyOf) = some g' ∧ makeMoves theCfg g ms = some g' ∧ ofGame g' = pos' ∧ Search.SInv g' := by
  intro ms
  induction ms with
  | nil =>
    intro g pos' h hp _
    cases hp
    exact ⟨g, rfl, rfl, rfl, h⟩
  | cons m ms ih =>
    intro g pos' h hp hfit
    cases hp with
    | cons _ _ _ _ hl hrest =>
      obtain ⟨g1, hg1⟩ := Search.make_total_legal g m h hl
      obtain ⟨h1, hof⟩ := Search.sinv_make g g1 m h hl hg1
      have hat := applyText_legal T g h m hl (hfit 0 g rfl)
      rw [← hof] at hrest
      obtain ⟨g', r1, r2, r3, r4⟩ := ih g1 pos' h1 hrest (fun k gk hk => hfit (k + 1) gk (by
        show (makeMove theCfg g m).bind _ = some gk
        rw [hg1]; exact hk))
      refine ⟨g', ?_, ?_, r3, r4⟩
      · show (applyText g (keyOf m)).bind _ = some g'
        rw [hat, hg1]; exact r1
      · show (makeMove theCfg g m).bind _ = some g'
        rw [hg1]; exact r2

end Tcheran
