import TcheranVerif.Proofs.SanLegal
import TcheranVerif.Proofs.Mirror
/-!
# The number of men of a colour never grows along a game; the evaluation along games (C16, with C02 / C15)

`men_apply`: a legal move does not increase the number of men of either colour (a promotion replaces the pawn,
castling moves the rook).  Hence every position of every game of legal moves from a legal start has at most
sixteen men a side and one king each, its accumulators are in step (C15), and `eval_bounded` / `eval_mirror`
apply to it: `eval_along_game`.
-/

namespace Tcheran
open Board Game Rules

theorem any_ite (o : Option Piece) (f : Piece → Bool) : (if o.any f then 1 else 0 : Nat) ≤ 1 := by
  split <;> omega

/-- effect of one square update on a count over a duplicate-free list of squares -/
theorem filter_setSq (b : RBoard) (s : Sq) (v : Option Piece) (f : Piece → Bool) (l : List Sq) (hn : l.Nodup) :
    (l.filter fun t => (at' (setSq b s v) t).any f).length + (if s ∈ l ∧ (at' b s).any f then 1 else 0) =
    (l.filter fun t => (at' b t).any f).length + (if s ∈ l ∧ v.any f then 1 else 0) := by
  induction l with
  | nil => simp
  | cons x xs ih =>
    have hx := List.nodup_cons.1 hn
    have ih := ih hx.2
    simp only [List.filter_cons, List.mem_cons]
    by_cases hxs : x = s
    · subst hxs
      have hnot : x ∉ xs := hx.1
      simp only [hnot, false_and, if_false, Nat.add_zero] at ih
      rw [at_setSq]
      simp only [if_true, true_or, true_and]
      cases h1 : v.any f <;> cases h2 : (at' b x).any f <;> simp <;> omega
    · have hsx : ¬ s = x := fun e => hxs e.symm
      rw [at_setSq]
      simp only [if_neg hxs, hsx, false_or]
      cases h2 : (at' b x).any f <;> simp <;> omega

theorem count_setSq (b : RBoard) (s : Sq) (v : Option Piece) (f : Piece → Bool) :
    count (setSq b s v) f + ((at' b s).any f).toNat = count b f + (v.any f).toNat := by
  have := filter_setSq b s v f (List.finRange 64) (List.nodup_finRange 64)
  simp only [List.mem_finRange, true_and] at this
  unfold count
  cases h1 : (at' b s).any f <;> cases h2 : v.any f <;> simp only [h1, h2, Bool.toNat_true, Bool.toNat_false] <;>
    simp [h1, h2] at this <;> omega

theorem count_setSq_none_le (b : RBoard) (s : Sq) (f : Piece → Bool) : count (setSq b s none) f ≤ count b f := by
  have := count_setSq b s none f
  simp only [Option.any_none, Bool.toNat_false, Nat.add_zero] at this
  omega

def ofColour (pl : Player) (pc : Piece) : Bool := pc.player == pl

/-- **men_apply** -/
theorem men_apply (pos : Pos) (m : Move) (hl : m ∈ legalMoves pos) (pl : Player) :
    count (Rules.apply pos m).board (ofColour pl) ≤ count pos.board (ofColour pl) := by
  show count (applyBoard pos.board pos.player m) (ofColour pl) ≤ _
  obtain ⟨moved, ha, hp, hkind⟩ := legal_src pos m hl
  unfold applyBoard
  rw [ha]
  simp only
  -- lift the mover, put down the mover or the promoted piece
  have h1 := count_setSq pos.board m.src none (ofColour pl)
  rw [ha] at h1
  simp only [Option.any_some, Option.any_none, Bool.toNat_false, Nat.add_zero] at h1
  have hplaced : ∀ placed : Piece, placed.player = pos.player →
      count (setSq (setSq pos.board m.src none) m.dst (some placed)) (ofColour pl) ≤ count pos.board (ofColour pl) := by
    intro placed hpp
    have h2 := count_setSq (setSq pos.board m.src none) m.dst (some placed) (ofColour pl)
    simp only [Option.any_some] at h2
    have e : ofColour pl placed = ofColour pl moved := by unfold ofColour; rw [hpp, hp]
    rw [e] at h2
    have := Bool.toNat_le ((at' (setSq pos.board m.src none) m.dst).any (ofColour pl))
    omega
  have hb2 : count (setSq (setSq pos.board m.src none) m.dst (some (match m.promotion with
      | some pr => ⟨pr.piece, pos.player⟩ | none => moved))) (ofColour pl) ≤ count pos.board (ofColour pl) := by
    apply hplaced
    cases m.promotion <;> simp [hp]
  generalize hb2def : setSq (setSq pos.board m.src none) m.dst (some (match m.promotion with
      | some pr => ⟨pr.piece, pos.player⟩ | none => moved)) = b2 at hb2
  -- the pawn taken en passant
  have hb3 : count (if m.isEnPassant = true then
        match offset m.dst 0 (-(fwd pos.player)) with
        | some v => setSq b2 v none
        | none => b2
      else b2) (ofColour pl) ≤ count pos.board (ofColour pl) := by
    split
    · split
      · exact Nat.le_trans (count_setSq_none_le _ _ _) hb2
      · exact hb2
    · exact hb2
  by_cases hc : m.isCastling = true
  · -- castling: the rook leaves `rf` and lands on `rt`
    rw [if_pos hc]
    have hcm : m ∈ castleMoves pos := by
      obtain ⟨hps, _⟩ := (mem_legalMoves_iff pos m).1 hl
      rcases hps with ⟨s, pc, ha', _, hmv⟩ | h
      · rw [(piece_move_src pos s pc m ha' hmv).2] at hc; cases hc
      · exact h
    obtain ⟨rf, rt, hmk, _, hsq, hrook, _, _, _, hrfk, hrfd, _, _, _⟩ := castle_move_facts2 pos m hcm
    have hnep : m.isEnPassant = false := by rw [hmk]; rfl
    rw [hsq]
    simp only [hnep, Bool.false_eq_true, if_false] at hb3 ⊢
    have hsrc : m.src = kingStart pos.player := by rw [hmk]; rfl
    have hrf : at' b2 rf = some ⟨.rook, pos.player⟩ := by
      rw [← hb2def, at_setSq, if_neg hrfd, at_setSq, if_neg (by rw [hsrc]; exact hrfk)]
      exact hrook
    have h3 := count_setSq b2 rf none (ofColour pl)
    rw [hrf] at h3
    simp only [Option.any_some, Option.any_none, Bool.toNat_false, Nat.add_zero] at h3
    have h4 := count_setSq (setSq b2 rf none) rt (some ⟨.rook, pos.player⟩) (ofColour pl)
    simp only [Option.any_some] at h4
    have := Bool.toNat_le ((at' (setSq b2 rf none) rt).any (ofColour pl))
    omega
  · rw [if_neg hc]
    exact hb3

/-- along a game the number of men of a colour does not grow -/
theorem men_path (pos pos' : Pos) (ms : List Move) (hp : LegalPath pos ms pos') (pl : Player) :
    count pos'.board (ofColour pl) ≤ count pos.board (ofColour pl) := by
  induction hp with
  | nil _ => exact Nat.le_refl _
  | cons pos m ms pos' hl _ ih => exact Nat.le_trans ih (men_apply pos m hl pl)

open Eval in
/-- one king: the class count used by the evaluation bound -/
theorem king_cnt (pos : Pos) (b : Board) (hb : b.squares = pos.board) (hi : GInv pos) (pl : Player) :
    cnt b (isK pl) Eval.sqs = 1 := by
  rw [cnt_isK]
  obtain ⟨k, hk⟩ := hi.king pl
  unfold cnt Eval.sqs
  rw [San.filter_singleton_of_unique (List.finRange 64) _ k (List.nodup_finRange 64) (List.mem_finRange k)]
  · rfl
  · have : b.pieceAt k = some ⟨.king, pl⟩ := by
      show at' b.squares k = _
      rw [hb]; exact (hk k).2 rfl
    rw [this]; simp
  · intro x _ hx
    apply (hk x).1
    have e : b.pieceAt x = at' pos.board x := by show at' b.squares x = _; rw [hb]
    rw [← e]
    cases h : b.pieceAt x with
    | none => rw [h] at hx; cases hx
    | some pc =>
      rw [h] at hx
      simp only [Option.any_some, beq_iff_eq] at hx
      rw [hx]

open Eval in
/-- **eval_along_game**: at every position of every game of legal moves from a legal start the evaluation is
total, strictly inside the non-mate range, and equal to the evaluation of the mirrored position -/
theorem eval_along_game (T : SliderTables) (g0 : Game) (ms : List Move) (pos' : Pos) (hs : Sync theCfg g0)
    (hl : legalPos (ofGame g0) = true) (hp : LegalPath (ofGame g0) ms pos') :
    ∃ g', makeMoves theCfg g0 ms = some g' ∧ ofGame g' = pos' ∧
      ∃ v, eval g' = some v ∧ -31900 < v ∧ v < 31900 ∧ eval (Game.mirror theCfg g') = some v := by
  obtain ⟨g', h1, h2, hs'⟩ := game_sync theCfg g0 ms pos' hs (ginv_of_legal _ hl) hp
  obtain ⟨g'', h1', _, _, hi'⟩ := game_refines theCfg g0 ms pos' hs.cons (ginv_of_legal _ hl) hp
  have : g'' = g' := by rw [h1] at h1'; exact (Option.some.inj h1').symm
  subst this
  refine ⟨g'', h1, h2, ?_⟩
  have hKw := king_cnt (ofGame g'') g''.board rfl hi' .white
  have hKb := king_cnt (ofGame g'') g''.board rfl hi' .black
  -- sixteen men a side at the start, hence now
  unfold legalPos at hl
  simp only [Bool.and_eq_true] at hl
  obtain ⟨⟨⟨⟨⟨⟨⟨⟨_, _⟩, _⟩, _⟩, _⟩, hmw⟩, hmb⟩, _⟩, _⟩ := hl
  simp only [Bool.and_eq_true, decide_eq_true_eq] at hmw hmb
  have hw0 : count (ofGame g0).board (ofColour .white) ≤ 16 := hmw.1
  have hb0 : count (ofGame g0).board (ofColour .black) ≤ 16 := hmb.1
  have hw := Nat.le_trans (men_path _ _ ms hp .white) hw0
  have hb := Nat.le_trans (men_path _ _ ms hp .black) hb0
  rw [← h2] at hw hb
  have hW := cnt_player g''.board .white Eval.sqs
  have hB := cnt_player g''.board .black Eval.sqs
  have hw' : cnt g''.board (fun pc => pc.player == .white) Eval.sqs ≤ 16 := hw
  have hb' : cnt g''.board (fun pc => pc.player == .black) Eval.sqs ≤ 16 := hb
  obtain ⟨v, hv, b1, b2⟩ := eval_total_bounded T g'' hs'.cons hs'.inc hKw hKb (by omega) (by omega)
  refine ⟨v, hv, by omega, by omega, ?_⟩
  rw [eval_mirror_counts T g'' hs'.cons hs'.inc hKw hKb (by omega) (by omega)]
  exact hv

end Tcheran
