import TcheranVerif.Proofs.PinLegal
/-!
# Plain moves of the rules specification and the engine's check mask (C01)
-/

namespace Tcheran
open Board Geometry Rules

/-- the man that stands on the destination after a plain move -/
def placedPiece (p : Player) (m : Move) (X : Piece) : Piece :=
  match m.promotion with
  | some pr => ⟨pr.piece, p⟩
  | none => X

/-- placement after any move that is neither castling nor en passant -/
theorem applyBoard_plain (b : RBoard) (p : Player) (m : Move) (X : Piece)
    (hf : m.flag ≠ .enPassant ∧ m.flag ≠ .castle) (hsrc : at' b m.src = some X) (s : Sq) :
    at' (applyBoard b p m) s =
      if s = m.dst then some (placedPiece p m X) else if s = m.src then none else at' b s := by
  unfold applyBoard
  rw [hsrc]
  have he : m.isEnPassant = false := by
    unfold Move.isEnPassant; simpa using hf.1
  have hcs : m.isCastling = false := by
    unfold Move.isCastling; simpa using hf.2
  simp only [he, hcs, Bool.false_eq_true, if_false]
  rw [at_setSq, at_setSq]
  rfl

theorem promo_piece_ne_king (pr : Promo) : pr.piece ≠ .king := by cases pr <;> simp [Promo.piece]

/-- **plain_move_legal**: a plain move of a non-king man leaves the king safe iff it deals with every
checker and with every x-ray through its source -/
theorem plain_move_legal (sq : RBoard) (p : Player) (k : Sq)
    (hk : ∀ s, at' sq s = some ⟨.king, p⟩ ↔ s = k) (m : Move) (X : Piece)
    (hsrc : at' sq m.src = some X) (hXp : X.player = p) (hXk : X.kind ≠ .king)
    (hf : m.flag ≠ .enPassant ∧ m.flag ≠ .castle) (hdk : m.dst ≠ k) (hsd : m.src ≠ m.dst) :
    inCheck (applyBoard sq p m) p = false ↔
      (CheckOK sq p.other k m.dst ∧ PinOK sq p.other k m.src m.dst) := by
  have hat := applyBoard_plain sq p m X hf hsrc
  have hsk : m.src ≠ k := by
    intro e
    rw [e, (hk k).2 rfl] at hsrc
    have := Option.some.inj hsrc
    rw [← this] at hXk
    exact hXk rfl
  have hpl : (placedPiece p m X).player = p ∧ (placedPiece p m X).kind ≠ .king := by
    unfold placedPiece
    cases m.promotion with
    | none => exact ⟨hXp, hXk⟩
    | some pr => exact ⟨rfl, promo_piece_ne_king pr⟩
  have hstep : PlainStep sq (applyBoard sq p m) p m.src m.dst :=
    { src_own := ⟨X, hsrc, hXp⟩
      dst_own := ⟨placedPiece p m X, by rw [hat, if_pos rfl], hpl.1, hpl.2⟩
      src_empty := by rw [hat, if_neg hsd, if_pos rfl]
      off := fun x h1 h2 => by rw [hat, if_neg h2, if_neg h1]
      ne := hsd }
  have hk2 : ∀ s, at' (applyBoard sq p m) s = some ⟨.king, p⟩ ↔ s = k := by
    intro s
    rw [hat s]
    by_cases h1 : s = m.dst
    · rw [if_pos h1]
      constructor
      · intro e
        have := Option.some.inj e
        rw [this] at hpl
        exact absurd rfl hpl.2
      · intro e; exact absurd (h1 ▸ e) hdk
    · rw [if_neg h1]
      by_cases h2 : s = m.src
      · rw [if_pos h2]
        constructor
        · intro e; cases e
        · intro e; exact absurd (h2 ▸ e) hsk
      · rw [if_neg h2]; exact hk s
  unfold inCheck
  rw [kingSq_unique _ p k hk2]
  exact plain_legal_iff sq _ p k m.src m.dst hstep hsk hdk

/-! ### the check mask -/

theorem mem_checkers (T : SliderTables) (bd : Board) (hc : Consistent bd) (p : Player) (k c : Sq) :
    mem (attackersOf bd p k) c = true ↔ AttacksFrom bd.squares p.other c k :=
  mem_attackersOf T bd hc p k c

theorem attacker_between_empty {b : RBoard} {o : Player} {c k x : Sq} (h : AttacksFrom b o c k)
    (hx : x ∈ betweenList k c) : occOf b x = false :=
  ((attacksFrom_iff_geo b o c k).1 h).2 x hx

theorem attacker_occ {b : RBoard} {o : Player} {c k : Sq} (h : AttacksFrom b o c k) : occOf b c = true := by
  obtain ⟨kk, a, _⟩ := h
  unfold occOf; rw [a]; rfl

/-- no checker: every destination is fine -/
theorem checkOK_zero (T : SliderTables) (bd : Board) (hc : Consistent bd) (p : Player) (k d : Sq)
    (h : attackersOf bd p k = 0#64) : CheckOK bd.squares p.other k d := by
  intro c hcAtt
  have := (mem_checkers T bd hc p k c).2 hcAtt
  rw [h, mem_zero] at this; cases this

/-- one checker: capture it or step between -/
theorem checkOK_one (T : SliderTables) (bd : Board) (hc : Consistent bd) (p : Player) (k d c : Sq)
    (h : BB.toList (attackersOf bd p k) = [c]) :
    CheckOK bd.squares p.other k d ↔ mem (between c k ||| attackersOf bd p k) d = true := by
  have honly : ∀ x, mem (attackersOf bd p k) x = true ↔ x = c := by
    intro x; rw [← mem_toList, h]; simp
  rw [mem_or, Bool.or_eq_true, between_comm, mem_between, honly]
  constructor
  · intro hck
    rcases hck c ((mem_checkers T bd hc p k c).1 ((honly c).2 rfl)) with e | e
    · exact Or.inr e.symm
    · exact Or.inl e
  · rintro (e | e) x hx
    · have := (honly x).1 ((mem_checkers T bd hc p k x).2 hx)
      subst this; exact Or.inr e
    · have := (honly x).1 ((mem_checkers T bd hc p k x).2 hx)
      subst this; exact Or.inl e.symm

/-- two checkers: no single destination deals with both -/
theorem checkOK_many (T : SliderTables) (bd : Board) (hc : Consistent bd) (p : Player) (k d : Sq)
    (h : 1 < BB.count (attackersOf bd p k)) : ¬ CheckOK bd.squares p.other k d := by
  intro hck
  unfold BB.count at h
  have hnd := toList_nodup (attackersOf bd p k)
  match hl : BB.toList (attackersOf bd p k), h, hnd with
  | [], h, _ => simp at h
  | [_], h, _ => simp at h
  | c1 :: c2 :: rest, _, hnd' =>
    rw [hl] at hnd
    have hne : c1 ≠ c2 := by
      intro e; subst e
      simp at hnd
    have m1 : c1 ∈ BB.toList (attackersOf bd p k) := by rw [hl]; simp
    have m2 : c2 ∈ BB.toList (attackersOf bd p k) := by rw [hl]; simp
    have a1 := (mem_checkers T bd hc p k c1).1 ((mem_toList _ _).1 m1)
    have a2 := (mem_checkers T bd hc p k c2).1 ((mem_toList _ _).1 m2)
    rcases hck c1 a1 with e1 | e1 <;> rcases hck c2 a2 with e2 | e2
    · exact hne (e1.trans e2.symm)
    · -- d = c1 lies between k and c2
      rw [← e1] at e2
      have := attacker_between_empty a2 e2
      rw [attacker_occ a1] at this; cases this
    · rw [← e2] at e1
      have := attacker_between_empty a1 e1
      rw [attacker_occ a2] at this; cases this
    · obtain ⟨dir1, hd1, hq1, hx1, _⟩ := bl_on_ray e1
      obtain ⟨dir2, hd2, hq2, hx2, _⟩ := bl_on_ray e2
      have hdd : dir1 = dir2 := by
        apply Decidable.byContradiction
        intro hn
        exact ray_disjoint k dir1 hd1 dir2 hd2 hn d hx1 hx2
      subst hdd
      rcases bl_total hd1 hq1 hq2 hne with h' | h'
      · have := attacker_between_empty a2 h'
        rw [attacker_occ a1] at this; cases this
      · have := attacker_between_empty a1 h'
        rw [attacker_occ a2] at this; cases this

end Tcheran
