import TcheranVerif.Proofs.Magic
import TcheranVerif.Gen.MagicCert
/-!
# The magic table against a certificate (C07, kernel only)

`cert i` reads slot `i` of `Gen/MagicCert.lean`, an **untrusted** copy of what the attack table should hold,
regenerated from `/repo`'s magics on every run. `certOne` is the finite fact the kernel decides per
square (`Proofs/Sweep/*.lean`): the carry-rippler enumerates every subset of the mask, and every write of
the table initialisation lands inside the table on a slot for which the certificate has exactly the
value written. `applyWrites_cert` turns these facts into a statement about the table the initialisation
builds — whatever the order of the writes and however the squares share slots: a slot that was written
holds what the certificate says.
-/

namespace Tcheran

def cert (i : Nat) : BB :=
  (Gen.certChunks.getD (i / Gen.certChunkSize) []).getD (i % Gen.certChunkSize) 0#64

/-- one square, one slider kind -/
def certOne (mask : BB) (index : BB → Nat) (gen : BB → BB) : Bool :=
  (subsetsOf mask == depositList mask) &&
  (subsetsOf mask).all fun b => decide (index b < Gen.tableSize) && (cert (index b) == gen b)

theorem getD_setIfInBounds (t : Array BB) (i j : Nat) (v : BB) :
    (t.setIfInBounds i v).getD j 0#64 = if i = j ∧ i < t.size then v else t.getD j 0#64 := by
  simp only [Array.getD_eq_getD_getElem?, Array.getElem?_setIfInBounds]
  by_cases h : i = j
  · subst h
    by_cases h2 : i < t.size
    · simp [h2]
    · simp [h2]
  · simp [h]

theorem applyWrites_size (ws : List (Nat × BB)) : ∀ t : Array BB, (applyWrites t ws).size = t.size := by
  induction ws with
  | nil => intro t; rfl
  | cons w ws ih =>
    intro t
    show (applyWrites (t.setIfInBounds w.1 w.2) ws).size = t.size
    rw [ih, Array.size_setIfInBounds]

/-- after the writes, every slot that was written holds what the certificate says -/
theorem applyWrites_cert (ws : List (Nat × BB)) :
    ∀ (t : Array BB) (W : List Nat), (∀ w ∈ ws, w.1 < t.size ∧ cert w.1 = w.2) →
      (∀ i ∈ W, t.getD i 0#64 = cert i) →
      ∀ i, (i ∈ W ∨ i ∈ ws.map (·.1)) → (applyWrites t ws).getD i 0#64 = cert i := by
  induction ws with
  | nil =>
    intro t W _ hW i hi
    rcases hi with h | h
    · exact hW i h
    · cases h
  | cons w ws ih =>
    intro t W hws hW i hi
    show (applyWrites (t.setIfInBounds w.1 w.2) ws).getD i 0#64 = cert i
    obtain ⟨hlt, hc⟩ := hws w (List.mem_cons_self)
    refine ih (t.setIfInBounds w.1 w.2) (w.1 :: W) ?_ ?_ i ?_
    · intro w' hw'
      rw [Array.size_setIfInBounds]
      exact hws w' (List.mem_cons_of_mem _ hw')
    · intro j hj
      rw [getD_setIfInBounds]
      by_cases hij : w.1 = j
      · rw [if_pos ⟨hij, hlt⟩, ← hij, hc]
      · rw [if_neg (fun h => hij h.1)]
        rcases List.mem_cons.1 hj with e | e
        · exact absurd e.symm hij
        · exact hW j e
    · rcases hi with h | h
      · exact Or.inl (List.mem_cons_of_mem _ h)
      · rw [List.map_cons, List.mem_cons] at h
        rcases h with e | e
        · exact Or.inl (e ▸ List.mem_cons_self)
        · exact Or.inr e

theorem certOne_facts {mask : BB} {index : BB → Nat} {gen : BB → BB} (h : certOne mask index gen = true) :
    (∀ occ : BB, (occ &&& mask) ∈ subsetsOf mask) ∧
    ∀ b ∈ subsetsOf mask, index b < Gen.tableSize ∧ cert (index b) = gen b := by
  unfold certOne at h
  rw [Bool.and_eq_true] at h
  have hl : subsetsOf mask = depositList mask := eq_of_beq h.1
  refine ⟨fun occ => by rw [hl]; exact mem_depositList mask occ, fun b hb => ?_⟩
  have := (List.all_eq_true.1 h.2) b hb
  rw [Bool.and_eq_true] at this
  exact ⟨of_decide_eq_true this.1, eq_of_beq this.2⟩

/-- from the per-square facts to the table -/
theorem table_of_cert
    (hR : ∀ s : Sq, certOne (rookMask s) (rookIndex s) (genRookAttacks s) = true)
    (hB : ∀ s : Sq, certOne (bishopMask s) (bishopIndex s) (genBishopAttacks s) = true) :
    (∀ (s : Sq) (occ : BB), rookIndex s (occ &&& rookMask s) < Gen.tableSize ∧
      attackTable.getD (rookIndex s (occ &&& rookMask s)) 0#64 = genRookAttacks s (occ &&& rookMask s)) ∧
    (∀ (s : Sq) (occ : BB), bishopIndex s (occ &&& bishopMask s) < Gen.tableSize ∧
      attackTable.getD (bishopIndex s (occ &&& bishopMask s)) 0#64 = genBishopAttacks s (occ &&& bishopMask s)) := by
  have hrw : ∀ w ∈ rookWrites, w.1 < Gen.tableSize ∧ cert w.1 = w.2 := by
    intro w hw
    unfold rookWrites at hw
    obtain ⟨s, _, hw⟩ := List.mem_flatMap.1 hw
    obtain ⟨b, hb, e⟩ := List.mem_map.1 hw
    subst e
    exact (certOne_facts (hR s)).2 b hb
  have hbw : ∀ w ∈ bishopWrites, w.1 < Gen.tableSize ∧ cert w.1 = w.2 := by
    intro w hw
    unfold bishopWrites at hw
    obtain ⟨s, _, hw⟩ := List.mem_flatMap.1 hw
    obtain ⟨b, hb, e⟩ := List.mem_map.1 hw
    subst e
    exact (certOne_facts (hB s)).2 b hb
  have hall : ∀ w ∈ allWrites, w.1 < Gen.tableSize ∧ cert w.1 = w.2 := by
    intro w hw
    unfold allWrites at hw
    split at hw <;> rcases List.mem_append.1 hw with h | h <;> first | exact hrw w h | exact hbw w h
  have hmemR : ∀ w ∈ rookWrites, w ∈ allWrites := by
    intro w hw; unfold allWrites; split <;> simp [hw]
  have hmemB : ∀ w ∈ bishopWrites, w ∈ allWrites := by
    intro w hw; unfold allWrites; split <;> simp [hw]
  have key : ∀ i, i ∈ allWrites.map (·.1) → attackTable.getD i 0#64 = cert i := by
    intro i hi
    unfold attackTable
    refine applyWrites_cert allWrites _ [] ?_ (fun _ h => by cases h) i (Or.inr hi)
    intro w hw
    rw [Array.size_replicate]
    exact hall w hw
  constructor
  · intro s occ
    have hsub := (certOne_facts (hR s)).1 occ
    have hf := (certOne_facts (hR s)).2 _ hsub
    refine ⟨hf.1, ?_⟩
    rw [key, hf.2]
    refine List.mem_map.2 ⟨(rookIndex s (occ &&& rookMask s), genRookAttacks s (occ &&& rookMask s)), hmemR _ ?_, rfl⟩
    unfold rookWrites
    exact List.mem_flatMap.2 ⟨s, List.mem_finRange s, List.mem_map.2 ⟨_, hsub, rfl⟩⟩
  · intro s occ
    have hsub := (certOne_facts (hB s)).1 occ
    have hf := (certOne_facts (hB s)).2 _ hsub
    refine ⟨hf.1, ?_⟩
    rw [key, hf.2]
    refine List.mem_map.2 ⟨(bishopIndex s (occ &&& bishopMask s), genBishopAttacks s (occ &&& bishopMask s)), hmemB _ ?_, rfl⟩
    unfold bishopWrites
    exact List.mem_flatMap.2 ⟨s, List.mem_finRange s, List.mem_map.2 ⟨_, hsub, rfl⟩⟩

end Tcheran
