import TcheranVerif.Proofs.PickerStages
/-!
# `MovePicker::next` and the drained stream

`next_ok` : one call of `next` either yields one move of the "still to yield" set and removes it, or
yields nothing and then the picker is at `Done` with that set empty. `drain_spec` : by induction on the
measure, the whole stream is duplicate-free and is exactly the initial set.
-/

namespace Tcheran
namespace Picker

theorem nextBest_stage (limit : Nat) : ∀ (fuel : Nat) (st : State), (nextBest limit fuel st).2.stage = st.stage := by
  intro fuel
  induction fuel with
  | zero => intro st; rfl
  | succ n ih =>
    intro st
    unfold nextBest
    split
    · rfl
    · simp only
      split
      · rfl
      · split
        · rw [ih]
        · rfl

theorem promoteLoop_stage (t : Move) (hi : Nat) : ∀ (fuel i : Nat) (st : State),
    (promoteLoop t hi fuel i st).2.stage = st.stage := by
  intro fuel
  induction fuel with
  | zero => intro i st; rfl
  | succ n ih =>
    intro i st
    unfold promoteLoop
    split
    · rfl
    · split
      · simp only
        split
        · rfl
        · rw [ih]
      · rw [ih]

theorem promote_stage (target : Option Move) (st : State) : (promote target st).2.stage = st.stage := by
  unfold promote
  cases target with
  | none => rfl
  | some t => exact promoteLoop_stage t _ _ _ st

/-- the stage reached when a block falls through -/
def Falls (k : Nat) (r : Step) : Prop := ∀ s1, r = .ok s1 → rank s1.stage ≤ k

theorem falls_skip {k : Nat} {st : State} {X : Stage} (hr : rank st.stage ≤ k + 1) (hX : rank X = k + 1)
    (hs : ¬ st.stage = X) : Falls k (.ok st) := by
  intro s1 e
  have e' : st = s1 := by injection e
  rw [← e']
  have : rank st.stage ≠ k + 1 := by
    intro c
    apply hs
    revert c hX
    cases st.stage <;> cases X <;> simp [rank] <;> omega
  omega

theorem sBest_falls (st : State) (hr : rank st.stage ≤ 10) : Falls 9 (sBest st) := by
  unfold sBest
  by_cases hs : st.stage = .bestMove
  · rw [if_pos hs]
    intro s1 e
    simp only at e
    split at e
    · cases e
    · cases e; exact Nat.le_refl _
  · rw [if_neg hs]; exact falls_skip hr rfl hs

theorem sGenCaptures_falls (env : Env) (st : State) (hr : rank st.stage ≤ 9) : Falls 8 (sGenCaptures env st) := by
  unfold sGenCaptures
  by_cases hs : st.stage = .genCaptures
  · rw [if_pos hs]
    intro s1 e
    cases e; exact Nat.le_refl _
  · rw [if_neg hs]; exact falls_skip hr rfl hs

theorem sGoodCaptures_falls (st : State) (hr : rank st.stage ≤ 8) : Falls 7 (sGoodCaptures st) := by
  unfold sGoodCaptures
  by_cases hs : st.stage = .goodCaptures
  · rw [if_pos hs]
    generalize nextBest st.capturesEnd (st.capturesEnd + 1 - st.idx) st = p
    obtain ⟨r, st'⟩ := p
    intro s1 e
    simp only at e
    split at e
    all_goals (try (split at e))
    all_goals (try (split at e))
    all_goals (try (split at e))
    all_goals (first | (cases e; done) | (cases e; simp [rank]))
  · rw [if_neg hs]; exact falls_skip hr rfl hs

theorem sGenQuiets_falls (env : Env) (st : State) (hr : rank st.stage ≤ 7) : Falls 6 (sGenQuiets env st) := by
  unfold sGenQuiets
  by_cases hs : st.stage = .genQuiets
  · rw [if_pos hs]
    intro s1 e
    cases e; exact Nat.le_refl _
  · rw [if_neg hs]; exact falls_skip hr rfl hs

theorem prom_falls (target : Option Move) (s : State) (k : Nat) (hk : rank s.stage ≤ k) :
    Falls k (match promote target s with
      | (r, st) => match r with
        | some m => .error (some m, st)
        | none => .ok st) := by
  have := promote_stage target s
  generalize promote target s = p at this
  obtain ⟨r, s'⟩ := p
  simp only at this ⊢
  intro s1 e
  cases r with
  | none => simp only at e; cases e; rw [this]; exact hk
  | some m => simp only at e; cases e

theorem sKiller1_falls (env : Env) (st : State) (hr : rank st.stage ≤ 6) : Falls 5 (sKiller1 env st) := by
  unfold sKiller1
  by_cases hs : st.stage = .killer1
  · rw [if_pos hs]; exact prom_falls _ _ _ (Nat.le_refl _)
  · rw [if_neg hs]; exact falls_skip hr rfl hs

theorem sKiller2_falls (env : Env) (st : State) (hr : rank st.stage ≤ 5) : Falls 4 (sKiller2 env st) := by
  unfold sKiller2
  by_cases hs : st.stage = .killer2
  · rw [if_pos hs]; exact prom_falls _ _ _ (Nat.le_refl _)
  · rw [if_neg hs]; exact falls_skip hr rfl hs

theorem sCounter_falls (env : Env) (st : State) (hr : rank st.stage ≤ 4) : Falls 3 (sCounter env st) := by
  unfold sCounter
  by_cases hs : st.stage = .counterMove
  · rw [if_pos hs]
    refine prom_falls _ _ _ ?_
    split <;> simp [rank]
  · rw [if_neg hs]; exact falls_skip hr rfl hs

theorem sBadCaptures_falls (st : State) (hr : rank st.stage ≤ 3) : Falls 2 (sBadCaptures st) := by
  unfold sBadCaptures
  by_cases hs : st.stage = .badCaptures
  · rw [if_pos hs]
    generalize nextBest st.capturesEnd (st.capturesEnd + 1 - st.idx) st = p
    obtain ⟨r, st'⟩ := p
    simp only
    intro s1 e
    cases r with
    | none =>
      simp only at e; cases e
      show rank (if st'.onlyCaptures = true then Stage.done else Stage.scoreQuiets) ≤ 2
      split <;> simp [rank]
    | some ms => obtain ⟨mv, sc⟩ := ms; simp only at e; cases e
  · rw [if_neg hs]; exact falls_skip hr rfl hs

theorem sScoreQuiets_falls (env : Env) (st : State) (hr : rank st.stage ≤ 2) : Falls 1 (sScoreQuiets env st) := by
  unfold sScoreQuiets
  by_cases hs : st.stage = .scoreQuiets
  · rw [if_pos hs]
    intro s1 e
    cases e; exact Nat.le_refl _
  · rw [if_neg hs]; exact falls_skip hr rfl hs

theorem sQuiets_falls (st : State) (hr : rank st.stage ≤ 1) : Falls 0 (sQuiets st) := by
  unfold sQuiets
  by_cases hs : st.stage = .quiets
  · rw [if_pos hs]
    generalize nextBest st.moves.size (st.moves.size + 1 - st.idx) st = p
    obtain ⟨r, st'⟩ := p
    simp only
    intro s1 e
    cases r with
    | none => simp only at e; cases e; exact Nat.le_refl _
    | some ms => obtain ⟨mv, sc⟩ := ms; simp only at e; cases e
  · rw [if_neg hs]; exact falls_skip hr rfl hs

/-! ### chaining the blocks -/

def Good (env : Env) (st : State) (k : Nat) (r : Step) : Prop := StepOk env st r ∧ Falls k r

theorem good_bind {env : Env} {st : State} {k k' : Nat} {r : Step} {f : State → Step}
    (h1 : Good env st k r) (h2 : ∀ s1, Inv env s1 → rank s1.stage ≤ k → Good env s1 k' (f s1)) :
    Good env st k' (r >>= f) := by
  cases r with
  | error e =>
    refine ⟨h1.1, ?_⟩
    intro s1 c; cases c
  | ok s1 =>
    have hsil : Silent env st s1 := h1.1
    have hg := h2 s1 hsil.inv (h1.2 s1 rfl)
    show Good env st k' (f s1)
    refine ⟨?_, hg.2⟩
    have := hg.1
    cases hf : f s1 with
    | ok s2 => rw [hf] at this; exact Silent.trans hsil this
    | error e =>
      obtain ⟨o, s2⟩ := e
      rw [hf] at this
      cases o with
      | none => exact this.elim
      | some m => exact Silent.emit hsil this

theorem rank_le_ten (s : Stage) : rank s ≤ 10 := by cases s <;> simp [rank]

/-- **one call of `next`** -/
theorem next_ok (env : Env) (hE : EnvOk env) (st : State) (h : Inv env st) :
    match next env st with
    | (some m, st') => Emit env st m st'
    | (none, st') => Silent env st st' ∧ st'.stage = .done := by
  have hchain : Good env st 0 (do
      let st ← sBest st
      let st ← sGenCaptures env st
      let st ← sGoodCaptures st
      let st ← sGenQuiets env st
      let st ← sKiller1 env st
      let st ← sKiller2 env st
      let st ← sCounter env st
      let st ← sBadCaptures st
      let st ← sScoreQuiets env st
      sQuiets st) := by
    refine good_bind ⟨sBest_ok env st h, sBest_falls st (rank_le_ten _)⟩ ?_
    intro s1 i1 r1
    refine good_bind ⟨sGenCaptures_ok env hE s1 i1, sGenCaptures_falls env s1 r1⟩ ?_
    intro s2 i2 r2
    refine good_bind ⟨sGoodCaptures_ok env hE s2 i2, sGoodCaptures_falls s2 r2⟩ ?_
    intro s3 i3 r3
    refine good_bind ⟨sGenQuiets_ok env hE s3 i3, sGenQuiets_falls env s3 r3⟩ ?_
    intro s4 i4 r4
    refine good_bind ⟨sKiller1_ok env s4 i4, sKiller1_falls env s4 r4⟩ ?_
    intro s5 i5 r5
    refine good_bind ⟨sKiller2_ok env s5 i5, sKiller2_falls env s5 r5⟩ ?_
    intro s6 i6 r6
    refine good_bind ⟨sCounter_ok env s6 i6, sCounter_falls env s6 r6⟩ ?_
    intro s7 i7 r7
    refine good_bind ⟨sBadCaptures_ok env s7 i7, sBadCaptures_falls s7 r7⟩ ?_
    intro s8 i8 r8
    refine good_bind ⟨sScoreQuiets_ok env s8 i8, sScoreQuiets_falls env s8 r8⟩ ?_
    intro s9 i9 r9
    exact ⟨sQuiets_ok env s9 i9, sQuiets_falls s9 r9⟩
  unfold next
  simp only
  generalize (do
      let st ← sBest st
      let st ← sGenCaptures env st
      let st ← sGoodCaptures st
      let st ← sGenQuiets env st
      let st ← sKiller1 env st
      let st ← sKiller2 env st
      let st ← sCounter env st
      let st ← sBadCaptures st
      let st ← sScoreQuiets env st
      sQuiets st : Step) = r at hchain
  cases r with
  | ok s =>
    simp only
    refine ⟨hchain.1, ?_⟩
    have := hchain.2 s rfl
    revert this
    cases s.stage <;> simp [rank]
  | error e =>
    obtain ⟨o, s⟩ := e
    simp only
    have := hchain.1
    cases o with
    | none => exact this.elim
    | some m => exact this

/-- **the whole stream**: duplicate-free and exactly the "still to yield" set -/
theorem drain_spec (env : Env) (hE : EnvOk env) : ∀ (fuel : Nat) (st : State), Inv env st → mu env st < fuel →
    (drain env fuel st).Nodup ∧ ∀ x, x ∈ drain env fuel st ↔ InP env st x := by
  intro fuel
  induction fuel with
  | zero => intro st _ h; omega
  | succ n ih =>
    intro st hinv hmu
    have hn := next_ok env hE st hinv
    unfold drain
    generalize next env st = p at hn
    obtain ⟨o, st'⟩ := p
    cases o with
    | none =>
      simp only at hn ⊢
      refine ⟨List.nodup_nil, fun x => ?_⟩
      rw [← hn.1.same x]
      unfold InP; rw [hn.2]
      simp
    | some m =>
      simp only at hn ⊢
      obtain ⟨d, mem⟩ := ih st' hn.inv (by have := hn.mu_lt; omega)
      refine ⟨List.nodup_cons.2 ⟨?_, d⟩, fun x => ?_⟩
      · rw [mem m, hn.rest m]
        exact fun c => c.2 rfl
      · rw [List.mem_cons, mem x, hn.rest x]
        constructor
        · rintro (e | e)
          · rw [e]; exact hn.mem
          · exact e.1
        · intro hx
          by_cases c : x = m
          · exact Or.inl c
          · exact Or.inr ⟨hx, c⟩

end Picker
end Tcheran
