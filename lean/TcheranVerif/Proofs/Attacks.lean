import TcheranVerif.Proofs.Bits
import TcheranVerif.Model.Geometry
/-!
# The bit-level ray walk equals the square-level walk, for every occupancy (unbounded part of C07)
-/

namespace Tcheran
open Geometry

theorem setOf_cons (t : Sq) (l : List Sq) : setOf (t :: l) = bb t ||| setOf l := by
  have h : ∀ (l : List Sq) (a : BB),
      l.foldl (fun a t => a ||| bb t) a = a ||| l.foldl (fun a t => a ||| bb t) 0#64 := by
    intro l; induction l with
    | nil => intro a; simp
    | cons x xs ih =>
      intro a
      simp only [List.foldl_cons]
      rw [ih (a ||| bb x), ih (0#64 ||| bb x)]
      simp [BitVec.or_assoc]
  unfold setOf
  simp only [List.foldl_cons]
  rw [h l (0#64 ||| bb t)]
  simp

theorem setOf_nil : setOf [] = 0#64 := rfl

theorem setOf_append (l1 l2 : List Sq) : setOf (l1 ++ l2) = setOf l1 ||| setOf l2 := by
  induction l1 with
  | nil => simp [setOf_nil]
  | cons x xs ih => simp [setOf_cons, ih, BitVec.or_assoc]

theorem mem_setOf (l : List Sq) (t : Sq) : mem (setOf l) t = true ↔ t ∈ l := by
  induction l with
  | nil => simp [setOf_nil, mem_zero]
  | cons x xs ih =>
    rw [setOf_cons, mem_or, mem_bb]
    simp only [Bool.or_eq_true, decide_eq_true_eq, List.mem_cons]
    rw [ih]

theorem walk_zero (d : Dir) (occ : BB) (fuel : Nat) (acc : BB) : walk d occ fuel 0#64 acc = acc := by
  cases fuel <;> simp [walk]

/-- the engine's `while` loop on a one-bit board = the squares seen along the ray (any fuel) -/
theorem walk_eq (d : Dir) (occ : BB) (fuel : Nat) (s : Sq) (acc : BB) :
    walk d occ fuel (bb s) acc = acc ||| setOf (seen (mem occ) (Rules.ray.go d fuel s)) := by
  induction fuel generalizing s acc with
  | zero => simp [walk, Rules.ray.go, seen, setOf_nil]
  | succ n ih =>
    unfold walk Rules.ray.go
    rw [if_neg (bb_ne_zero s), inDir_bb d (dir_mem_all d) s]
    cases hst : s.step d with
    | none =>
      simp [ofOpt, walk_zero, seen, setOf_nil]
    | some t =>
      simp only [ofOpt, seen]
      cases ho : mem occ t with
      | true =>
        have hnz : occ &&& bb t ≠ 0#64 := fun h => by
          have := (and_bb_eq_zero occ t).1 h; simp [ho] at this
        simp only [hnz, ne_eq, not_false_eq_true, if_true, setOf_cons, setOf_nil]
        simp
      | false =>
        have hz : occ &&& bb t = 0#64 := (and_bb_eq_zero occ t).2 ho
        simp only [hz, ne_eq, not_true_eq_false, if_false, Bool.false_eq_true]
        rw [ih t (acc ||| bb t), setOf_cons]
        simp [BitVec.or_assoc]

/-- after seven steps every ray has left the board: fuel 8 and fuel 7 see the same squares -/
theorem ray_fuel : ∀ d ∈ Dir.all, ∀ s : Sq, Rules.ray.go d 8 s = Rules.ray.go d 7 s := by decide +kernel

theorem walk8_eq (d : Dir) (occ : BB) (s : Sq) (acc : BB) :
    walk d occ 8 (bb s) acc = acc ||| setOf (seen (mem occ) (Rules.ray d s)) := by
  rw [walk_eq, ray_fuel d (dir_mem_all d) s]
  rfl

theorem slide_eq_acc (dirs : List Dir) (s : Sq) (occ : BB) (acc : BB) :
    dirs.foldl (fun acc d => walk d occ 8 (bb s) acc) acc
      = acc ||| setOf (dirs.flatMap fun d => seen (mem occ) (Rules.ray d s)) := by
  induction dirs generalizing acc with
  | nil => simp [setOf_nil]
  | cons d ds ih =>
    simp only [List.foldl_cons, List.flatMap_cons]
    rw [ih, walk8_eq, setOf_append]
    simp [BitVec.or_assoc]

/-- **slide_spec**: the engine's sliding-attack generator equals the first-principles ray walk,
    for every square and every one of the 2^64 occupancies -/
theorem slide_eq_spec (dirs : List Dir) (s : Sq) (occ : BB) : slide dirs s occ = slideSpec dirs s occ := by
  unfold slide slideSpec
  rw [slide_eq_acc]
  simp

/-- membership form of the same fact -/
theorem mem_slide (dirs : List Dir) (s : Sq) (occ : BB) (t : Sq) :
    mem (slide dirs s occ) t = true ↔ ∃ d ∈ dirs, t ∈ seen (mem occ) (Rules.ray d s) := by
  rw [slide_eq_spec, slideSpec, mem_setOf]
  simp [List.mem_flatMap]

/-- what is seen along a ray depends on the occupancy only at the squares that have a further
    square behind them (the last square of a ray is seen whether or not it is occupied) -/
theorem seen_congr (o1 o2 : Sq → Bool) (l : List Sq) (h : ∀ t ∈ l.dropLast, o1 t = o2 t) :
    seen o1 l = seen o2 l := by
  induction l with
  | nil => rfl
  | cons x xs ih =>
    cases xs with
    | nil => simp [seen]
    | cons y ys =>
      have hx : o1 x = o2 x := h x (by simp [List.dropLast])
      have hrest : ∀ t ∈ (y :: ys).dropLast, o1 t = o2 t := fun t ht =>
        h t (by simp only [List.dropLast_cons_cons, List.mem_cons]; exact Or.inr ht)
      have e1 : seen o1 (x :: y :: ys) = if o1 x then [x] else x :: seen o1 (y :: ys) := rfl
      have e2 : seen o2 (x :: y :: ys) = if o2 x then [x] else x :: seen o2 (y :: ys) := rfl
      rw [e1, e2, hx, ih hrest]

end Tcheran
