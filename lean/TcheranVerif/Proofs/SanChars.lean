import TcheranVerif.Model.San
/-!
# Character-level facts for the SAN round trip (C18)

List lemmas about `takeWhile` / `dropWhile` / `contains` on concatenations, the suffix stripper of the
reader, and the finite facts about the characters the writer can emit (decided by the kernel).
-/

namespace Tcheran
namespace San

/-! ### lists -/

theorem filter_singleton_of_unique {α} (l : List α) (p : α → Bool) (a : α) (hn : l.Nodup) (ha : a ∈ l)
    (hp : p a = true) (hu : ∀ x ∈ l, p x = true → x = a) : l.filter p = [a] := by
  induction l with
  | nil => cases ha
  | cons x xs ih =>
    have hx := List.nodup_cons.1 hn
    rcases List.mem_cons.1 ha with e | hin
    · subst e
      rw [List.filter_cons, if_pos hp]
      congr 1
      rw [List.filter_eq_nil_iff]
      intro y hy hpy
      have := hu y (List.mem_cons_of_mem _ hy) hpy
      subst this
      exact hx.1 hy
    · have hpx : p x = false := by
        cases h : p x with
        | false => rfl
        | true =>
          have := hu x List.mem_cons_self h
          subst this
          exact absurd hin hx.1
      rw [List.filter_cons, if_neg (by simp [hpx])]
      exact ih hx.2 hin (fun y hy => hu y (List.mem_cons_of_mem _ hy))

theorem takeWhile_append_of_all {α} (p : α → Bool) (a b : List α) (x : α) (ha : ∀ y ∈ a, p y = true)
    (hx : p x = false) : (a ++ x :: b).takeWhile p = a := by
  induction a with
  | nil => simp [List.takeWhile, hx]
  | cons y ys ih =>
    simp only [List.cons_append, List.takeWhile_cons, ha y List.mem_cons_self, if_true]
    rw [ih (fun z hz => ha z (List.mem_cons_of_mem _ hz))]

theorem dropWhile_append_of_all {α} (p : α → Bool) (a b : List α) (x : α) (ha : ∀ y ∈ a, p y = true)
    (hx : p x = false) : (a ++ x :: b).dropWhile p = x :: b := by
  induction a with
  | nil => simp [List.dropWhile, hx]
  | cons y ys ih =>
    simp only [List.cons_append, List.dropWhile_cons, ha y List.mem_cons_self, if_true]
    exact ih (fun z hz => ha z (List.mem_cons_of_mem _ hz))

theorem splitOnce_mid (a b : List Char) (ch : Char) (ha : ch ∉ a) :
    splitOnce (a ++ ch :: b) ch = some (a, b) := by
  unfold splitOnce
  have hc : (a ++ ch :: b).contains ch = true := by simp
  rw [if_pos hc]
  have hall : ∀ y ∈ a, (y != ch) = true := by
    intro y hy
    simp only [bne_iff_ne, ne_eq]
    intro e; subst e; exact ha hy
  rw [takeWhile_append_of_all _ a b ch hall (by simp), dropWhile_append_of_all _ a b ch hall (by simp)]
  rfl

theorem splitOnce_none (l : List Char) (ch : Char) (h : ch ∉ l) : splitOnce l ch = none := by
  unfold splitOnce
  rw [if_neg (by simpa using h)]

/-- stripping a suffix character from a list that does not end in it changes nothing -/
theorem dropSuffix_id (l : List Char) (x ch : Char) (hx : x ≠ ch) : dropSuffixChars (l ++ [x]) ch = l ++ [x] := by
  unfold dropSuffixChars
  rw [List.reverse_append, List.reverse_singleton, List.singleton_append, List.dropWhile_cons,
    if_neg (by simpa using hx), List.reverse_cons, List.reverse_reverse]

theorem dropSuffix_one (l : List Char) (x ch : Char) (hx : x ≠ ch) :
    dropSuffixChars (l ++ [x] ++ [ch]) ch = l ++ [x] := by
  unfold dropSuffixChars
  rw [List.reverse_append, List.reverse_singleton, List.singleton_append, List.dropWhile_cons,
    if_pos (by simp), List.reverse_append, List.reverse_singleton, List.singleton_append, List.dropWhile_cons,
    if_neg (by simpa using hx), List.reverse_cons, List.reverse_reverse]

/-! ### the characters the writer emits -/

/-- the letters of kinds other than the pawn -/
def kindChar : PieceKind → Char
  | .pawn => 'P' | .knight => 'N' | .bishop => 'B' | .rook => 'R' | .queen => 'Q' | .king => 'K'

def promoChar : Promo → Char
  | .knight => 'N' | .bishop => 'B' | .rook => 'R' | .queen => 'Q'

theorem pieceLetter_toList (k : PieceKind) (h : k ≠ .pawn) : (pieceLetter k).toList = [kindChar k] := by
  cases k <;> first | exact absurd rfl h | decide

theorem promoLetter_toList (p : Promo) : (promoLetter p).toList = [promoChar p] := by
  cases p <;> decide

/-- a character that none of the reader's separators equals -/
def plain (ch : Char) : Bool := ch != '+' && ch != '#' && ch != '=' && ch != 'x' && ch != 'O' && ch != '-'

theorem plain_file : ∀ f : Fin 8, plain (fileChar f.val) = true := by decide
theorem plain_rank : ∀ r : Fin 8, plain (rankChar r.val) = true := by decide
theorem plain_kind (k : PieceKind) : plain (kindChar k) = true := by cases k <;> decide
theorem plain_promo (p : Promo) : plain (promoChar p) = true := by cases p <;> decide

theorem parseFile_fileChar : ∀ f : Fin 8, parseFile? (fileChar f.val) = some f.val := by decide
theorem parseRank_rankChar : ∀ r : Fin 8, parseRank? (rankChar r.val) = some r.val := by decide
theorem parseFile_rankChar : ∀ r : Fin 8, parseFile? (rankChar r.val) = none := by decide
theorem parsePiece_fileChar : ∀ f : Fin 8, parsePiece? (fileChar f.val) = none := by decide
theorem parsePiece_kindChar (k : PieceKind) : parsePiece? (kindChar k) = some k := by cases k <;> decide

theorem byteSize_two : ∀ f r : Fin 8, (String.ofList [fileChar f.val, rankChar r.val]).utf8ByteSize = 2 := by
  decide

theorem file_lt (s : Sq) : s.file < 8 := Nat.mod_lt _ (by decide)
theorem rank_lt (s : Sq) : s.rank < 8 := by
  unfold Sq.rank; have := s.isLt; omega

theorem mk_file_rank (s : Sq) : Sq.mk? (s.file : Int) (s.rank : Int) = some s := by
  unfold Sq.mk?
  have h1 := file_lt s
  have h2 := rank_lt s
  rw [dif_pos (by omega)]
  congr 1
  apply Fin.ext
  show ((s.rank : Int) * 8 + (s.file : Int)).toNat = s.val
  unfold Sq.file Sq.rank
  omega

end San
end Tcheran
