import TcheranVerif.Proofs.SearchSound
import TcheranVerif.Props.C10
/-!
# Mate and stalemate verdicts of the search are exact (C08, with C01 / C10)

A node of `negamax` scores itself as mated (`mated_in(plies)`) or stalemated (`0`) exactly when its move
loop ends without having searched a move (`count = 0`).  `loop_count_zero`: that happens only if the picker's
very first answer is "no move"; `first_none_empty`: a fresh picker answers "no move" at once only if the
generator produced nothing (C10 `picker_perm`); with C01 (`nodeMoves_spec`) the position then has no legal
move.  Hence `terminal_verdict`: the mate score `mated_in(plies)` is born only at a node the rules call
checkmate, and the stalemate score only at a stalemate.
-/

namespace Tcheran
namespace Search
open Board Game Rules Picker

theorem first_none_empty (env : Env) (hE : EnvOk env) (hash : Option Move)
    (hh : ∀ h, hash = some h → h ∈ env.captures ∨ h ∈ env.quiets)
    (h : (Picker.next env (Picker.new hash)).1 = none) : env.captures = [] ∧ env.quiets = [] := by
  have hp := Props.C10.picker_perm env hE hash hh (10 * bound env + 1) (by omega)
  have hd : drain env (10 * bound env + 1) (Picker.new hash) = [] := by
    rw [drain]
    cases hn : Picker.next env (Picker.new hash) with
    | mk o st =>
      rw [hn] at h
      simp only at h
      subst h
      rfl
  rw [hd] at hp
  have := hp.symm.eq_nil
  exact List.append_eq_nil_iff.1 this

/-- the move loop: the count of searched moves never decreases, and it is still zero at the end only if the
picker's first answer was "no move" -/
theorem loop_count_zero (fuel : Nat) (g : Game) (alpha0 beta : Int) (plies : Nat) (inCheck : Bool) (depth : Nat)
    (ev : Int) (nm : NodeMoves) :
    ∀ lf st alpha bound bestMove bestEval count pv c b' bm' be' cnt' pv' c',
      negamax.loop fuel g alpha0 beta plies inCheck depth ev nm lf st alpha bound bestMove bestEval count pv c
        = (.ok (b', bm', be', cnt'), pv', c') →
      count ≤ cnt' ∧ (cnt' = 0 → (Picker.next (pickerEnv g nm c plies) st).1 = none) := by
  intro lf
  induction lf with
  | zero =>
    intro st alpha bound bestMove bestEval count pv c b' bm' be' cnt' pv' c' h
    rw [negamax.loop.eq_def] at h
    cases h
  | succ n ih =>
    intro st alpha bound bestMove bestEval count pv c b' bm' be' cnt' pv' c' h
    rw [negamax.loop.eq_def] at h
    simp only at h
    split at h
    · -- picker exhausted
      rename_i st' hnext
      simp only [Prod.mk.injEq, Res.ok.injEq] at h
      obtain ⟨⟨_, _, _, e⟩, _, _⟩ := h
      subst e
      exact ⟨Nat.le_refl _, fun _ => by rw [hnext]⟩
    · rename_i mv st' hnext
      split at h
      · -- futility skip: only when count > 0
        rename_i hf
        have hpos : 0 < count := by
          simp only [Bool.and_eq_true, decide_eq_true_eq] at hf
          exact hf.1.1.1.1.1
        obtain ⟨h1, _⟩ := ih _ _ _ _ _ _ _ _ _ _ _ _ _ _ h
        exact ⟨h1, fun e => by omega⟩
      · split at h
        · cases h
        · split at h
          · split at h
            · simp only [Prod.mk.injEq, Res.ok.injEq] at h
              obtain ⟨⟨_, _, _, e⟩, _, _⟩ := h
              subst e
              exact ⟨by omega, fun e => by omega⟩
            · split at h
              · split at h
                · cases h
                · obtain ⟨h1, _⟩ := ih _ _ _ _ _ _ _ _ _ _ _ _ _ _ h
                  exact ⟨by omega, fun e => by omega⟩
              · obtain ⟨h1, _⟩ := ih _ _ _ _ _ _ _ _ _ _ _ _ _ _ h
                exact ⟨by omega, fun e => by omega⟩
          · cases h
          · cases h

/-- **terminal_verdict**: if the move loop of a node, started with a fresh picker whose hash move (if any) is
one of the generated moves, ends without having searched a move, the position has no legal move — so the score
`finishNode` then gives, `mated_in(plies)` in check and `0` otherwise, is the rules' checkmate / stalemate -/
theorem terminal_verdict (T : SliderTables) (fuel : Nat) (g : Game) (hs : SInv g) (alpha0 beta : Int)
    (plies : Nat) (inCheck : Bool) (depth : Nat) (ev : Int) (nm : NodeMoves) (hnm : nodeMoves g = some nm)
    (prevBest : Option Move) (hpb : ∀ h, prevBest = some h → h ∈ legalMoves (ofGame g))
    (alpha : Int) (pv : List Move) (c : Ctx) (b' : TT.Bound) (bm' : Option Move) (be' : Int) (pv' : List Move) (c' : Ctx)
    (hloop : negamax.loop fuel g alpha0 beta plies inCheck depth ev nm 300 (Picker.new prevBest) alpha .upper none
        i16Min 0 pv c = (.ok (b', bm', be', 0), pv', c')) :
    legalMoves (ofGame g) = [] ∧
    (finishNode g depth plies inCheck b' bm' be' 0 pv' c').res =
      .ok (if inCheck then matedIn plies else 0) := by
  obtain ⟨hEnv, hmem⟩ := nodeMoves_spec T g hs nm hnm
  obtain ⟨_, hz⟩ := loop_count_zero fuel g alpha0 beta plies inCheck depth ev nm 300 _ _ _ _ _ _ _ _ _ _ _ _ _ _ hloop
  have hnone := hz rfl
  have hemp := first_none_empty (pickerEnv g nm c plies) (hEnv c plies) prevBest
    (fun h hh => (hmem h).2 (hpb h hh)) hnone
  have hc : nm.captures = [] := hemp.1
  have hq : nm.quiets = [] := hemp.2
  refine ⟨?_, ?_⟩
  · cases hl : legalMoves (ofGame g) with
    | nil => rfl
    | cons m ms =>
      have := (hmem m).2 (by rw [hl]; exact List.mem_cons_self)
      rw [hc, hq] at this
      rcases this with h | h <;> cases h
  · unfold finishNode
    rw [if_pos rfl]

end Search
end Tcheran
