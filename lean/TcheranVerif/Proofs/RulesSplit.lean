import TcheranVerif.Proofs.Castling
/-!
# The rules' legal moves, split by class of mover (C01)
-/

namespace Tcheran
open Board Geometry Rules

theorem mem_legalMoves_iff (pos : Pos) (m : Move) :
    m ∈ legalMoves pos ↔
      (((∃ s pc, at' pos.board s = some pc ∧ pc.player = pos.player ∧ m ∈ pieceMoves pos s pc) ∨
          m ∈ castleMoves pos) ∧
        inCheck (applyBoard pos.board pos.player m) pos.player = false) := by
  unfold legalMoves pseudoMoves
  rw [List.mem_filter, List.mem_append, List.mem_flatMap]
  simp only [Bool.not_eq_true']
  constructor
  · rintro ⟨h | h, hl⟩
    · obtain ⟨s, _, hs⟩ := h
      refine ⟨Or.inl ?_, hl⟩
      cases ha : at' pos.board s with
      | none => rw [ha] at hs; cases hs
      | some pc =>
        rw [ha] at hs
        simp only at hs
        split at hs
        · rename_i hp
          exact ⟨s, pc, ha, hp, hs⟩
        · cases hs
    · exact ⟨Or.inr h, hl⟩
  · rintro ⟨h | h, hl⟩
    · obtain ⟨s, pc, ha, hp, hm⟩ := h
      refine ⟨Or.inl ⟨s, List.mem_finRange s, ?_⟩, hl⟩
      rw [ha]
      simp only
      rw [if_pos hp]
      exact hm
    · exact ⟨Or.inr h, hl⟩

theorem dir_all_iff (d : Dir) : d ∈ Dir.all := by cases d <;> simp [Dir.all]

/-- the movers by class -/
theorem piece_class (pos : Pos) (m : Move) :
    (∃ s pc, at' pos.board s = some pc ∧ pc.player = pos.player ∧ m ∈ pieceMoves pos s pc) ↔
      ((∃ s, at' pos.board s = some ⟨.pawn, pos.player⟩ ∧ m ∈ pawnMoves pos s) ∨
       (∃ s, at' pos.board s = some ⟨.knight, pos.player⟩ ∧ m ∈ stepMoves pos.board pos.player s knightDeltas) ∨
       (∃ s, at' pos.board s = some ⟨.king, pos.player⟩ ∧ m ∈ stepMoves pos.board pos.player s kingDeltas) ∨
       (∃ s, (at' pos.board s = some ⟨.bishop, pos.player⟩ ∨ at' pos.board s = some ⟨.queen, pos.player⟩) ∧
          ∃ dir ∈ Dir.diagonal, m ∈ slideMoves pos.board pos.player s (ray dir s)) ∨
       (∃ s, (at' pos.board s = some ⟨.rook, pos.player⟩ ∨ at' pos.board s = some ⟨.queen, pos.player⟩) ∧
          ∃ dir ∈ Dir.cardinal, m ∈ slideMoves pos.board pos.player s (ray dir s))) := by
  constructor
  · rintro ⟨s, pc, ha, hp, hm⟩
    obtain ⟨kk, pl⟩ := pc
    simp only at hp
    subst hp
    unfold pieceMoves at hm
    cases kk <;> simp only at hm
    · exact Or.inl ⟨s, ha, hm⟩
    · exact Or.inr (Or.inl ⟨s, ha, hm⟩)
    · obtain ⟨dir, hd, h⟩ := List.mem_flatMap.1 hm
      exact Or.inr (Or.inr (Or.inr (Or.inl ⟨s, Or.inl ha, dir, hd, h⟩)))
    · obtain ⟨dir, hd, h⟩ := List.mem_flatMap.1 hm
      exact Or.inr (Or.inr (Or.inr (Or.inr ⟨s, Or.inl ha, dir, hd, h⟩)))
    · obtain ⟨dir, hd, h⟩ := List.mem_flatMap.1 hm
      rcases Geo.dir_family dir hd with ⟨hc, _⟩ | ⟨hdg, _⟩
      · exact Or.inr (Or.inr (Or.inr (Or.inr ⟨s, Or.inr ha, dir, hc, h⟩)))
      · exact Or.inr (Or.inr (Or.inr (Or.inl ⟨s, Or.inr ha, dir, hdg, h⟩)))
    · exact Or.inr (Or.inr (Or.inl ⟨s, ha, hm⟩))
  · rintro (⟨s, ha, hm⟩ | ⟨s, ha, hm⟩ | ⟨s, ha, hm⟩ | ⟨s, ha | ha, dir, hd, hm⟩ | ⟨s, ha | ha, dir, hd, hm⟩)
    · exact ⟨s, _, ha, rfl, by unfold pieceMoves; exact hm⟩
    · exact ⟨s, _, ha, rfl, by unfold pieceMoves; exact hm⟩
    · exact ⟨s, _, ha, rfl, by unfold pieceMoves; exact hm⟩
    · exact ⟨s, _, ha, rfl, by unfold pieceMoves; exact List.mem_flatMap.2 ⟨dir, hd, hm⟩⟩
    · exact ⟨s, _, ha, rfl, by
        unfold pieceMoves; exact List.mem_flatMap.2 ⟨dir, diagonal_sub dir hd, hm⟩⟩
    · exact ⟨s, _, ha, rfl, by unfold pieceMoves; exact List.mem_flatMap.2 ⟨dir, hd, hm⟩⟩
    · exact ⟨s, _, ha, rfl, by
        unfold pieceMoves; exact List.mem_flatMap.2 ⟨dir, cardinal_sub dir hd, hm⟩⟩

end Tcheran
