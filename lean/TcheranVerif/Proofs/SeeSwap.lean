import TcheranVerif.Model.SeeSeq
/-!
# The pruned exchange loop computes the sign of the full swap list (C20)

`see`'s loop never builds a swap list: it keeps one running score and stops as soon as the side to capture is
already content.  `swapAbs` is the classical computation: the list of successive capturers is played out in full
and folded from the back with "capturing is optional" (`max 0`).  `abs_agree` shows both give the same verdict on
every sequence of capturers — provided the running score is never zero when the *opponent* is to capture, which
holds at threshold zero because every capturable value is an odd multiple of 100 (`Good`, `trace_good`).

`trace` is the sequence of capturers the model's own loop would use if nobody ever stopped early (same choice of
the least valuable attacker, same x-ray refreshes, same rule for the king).  `loop_trace` ties the loop to
`loopAbs` over that sequence, for every board.
-/

namespace Tcheran
namespace See

theorem swapAbs_nonneg (vs : List Int) (onT : Int) : 0 ≤ swapAbs vs onT := by
  cases vs with
  | nil => simp [swapAbs]
  | cons v rest => simp only [swapAbs]; omega

theorem swapAbs_cons (v : Int) (rest : List Int) (onT : Int) :
    (swapAbs (v :: rest) onT = 0 ∧ onT - swapAbs rest v ≤ 0) ∨
    (swapAbs (v :: rest) onT = onT - swapAbs rest v ∧ 0 ≤ onT - swapAbs rest v) := by
  show (max 0 (onT - swapAbs rest v) = 0 ∧ _) ∨ (max 0 (onT - swapAbs rest v) = _ ∧ _)
  omega

theorem loopAbs_stop (v : Int) (rest : List Int) (opp : Bool) (s victim : Int)
    (h : (opp = false ∧ s ≥ 0) ∨ (opp = true ∧ s ≤ 0)) : loopAbs (v :: rest) opp s victim = s := by
  show (if (opp = false ∧ s ≥ 0) ∨ (opp = true ∧ s ≤ 0) then s else _) = s
  rw [if_pos h]

theorem loopAbs_go (v : Int) (rest : List Int) (opp : Bool) (s victim : Int)
    (h : ¬ ((opp = false ∧ s ≥ 0) ∨ (opp = true ∧ s ≤ 0))) :
    loopAbs (v :: rest) opp s victim = loopAbs rest (!opp) (if opp then s - victim else s + victim) v := by
  show (if (opp = false ∧ s ≥ 0) ∨ (opp = true ∧ s ≤ 0) then s else _) = _
  rw [if_neg h]

/-- **abs_agree** -/
theorem abs_agree (vs : List Int) : ∀ (s victim : Int), Good vs victim →
    (s % 200 = 100 → (0 ≤ loopAbs vs true s victim ↔ 0 ≤ s - swapAbs vs victim)) ∧
    (s % 200 = 0 → (0 ≤ loopAbs vs false s victim ↔ 0 ≤ s + swapAbs vs victim)) := by
  induction vs with
  | nil =>
    intro s victim _
    simp [loopAbs, swapAbs]
  | cons v rest ih =>
    intro s victim hg
    obtain ⟨hv, hg'⟩ := hg
    have hn := swapAbs_nonneg rest v
    have hc := swapAbs_cons v rest victim
    constructor
    · intro hs
      by_cases h0 : s ≤ 0
      · rw [loopAbs_stop v rest true s victim (Or.inr ⟨rfl, h0⟩)]
        omega
      · rw [loopAbs_go v rest true s victim (by
          intro h
          rcases h with ⟨h1, _⟩ | ⟨_, h2⟩
          · cases h1
          · exact h0 h2)]
        have := ((ih (s - victim) v hg').2 (by omega))
        simp only [Bool.not_true, if_true]
        rw [this]
        omega
    · intro hs
      by_cases h0 : s ≥ 0
      · rw [loopAbs_stop v rest false s victim (Or.inl ⟨rfl, h0⟩)]
        omega
      · rw [loopAbs_go v rest false s victim (by
          intro h
          rcases h with ⟨_, h2⟩ | ⟨h1, _⟩
          · exact h0 h2
          · cases h1)]
        have := ((ih (s + victim) v hg').1 (by omega))
        simp only [Bool.not_false, Bool.false_eq_true, if_false]
        rw [this]
        omega

/-! ## the model's own sequence of capturers -/

theorem other_ne (p : Player) : p.other ≠ p := by cases p <;> simp [Player.other]

theorem other_flag (c mover : Player) : decide (c.other ≠ mover) = !decide (c ≠ mover) := by
  cases c <;> cases mover <;> simp [Player.other]

/-- **loop_trace**: whenever the loop does not panic, its result is `loopAbs` over its own sequence of capturers -/
theorem loop_trace (b : Board) (mover : Player) (to : Sq) : ∀ (fuel : Nat) (st : St) (r : Int),
    loop b mover to fuel st = some r →
    r = loopAbs (trace b mover to fuel st) (decide (st.color.other ≠ mover)) st.score (pieceValue st.victim) := by
  intro fuel
  induction fuel with
  | zero =>
    intro st r h
    simp only [loop] at h
    simp only [trace, loopAbs]
    exact (Option.some.inj h).symm
  | succ fuel ih =>
    intro st r h
    unfold loop at h
    unfold trace
    simp only at h ⊢
    -- the abstract loop stops exactly when the concrete one does
    have stop_iff : ((st.color.other = mover ∧ st.score ≥ 0) ∨ (st.color.other ≠ mover ∧ st.score ≤ 0)) ↔
        ((decide (st.color.other ≠ mover) = false ∧ st.score ≥ 0) ∨
         (decide (st.color.other ≠ mover) = true ∧ st.score ≤ 0)) := by
      by_cases hc : st.color.other = mover <;> simp [hc]
    by_cases hstop : (st.color.other = mover ∧ st.score ≥ 0) ∨ (st.color.other ≠ mover ∧ st.score ≤ 0)
    · rw [if_pos hstop] at h
      have hr : r = st.score := (Option.some.inj h).symm
      -- whatever the sequence, the abstract loop stops at once
      generalize trace_def : (if st.attackers &&& b.occFor st.color.other = 0#64 then ([] : List Int) else _) = tr
      cases tr with
      | nil => simp only [loopAbs]; exact hr
      | cons v rest => rw [loopAbs_stop _ _ _ _ _ (stop_iff.1 hstop)]; exact hr
    · rw [if_neg hstop] at h
      by_cases hm : st.attackers &&& b.occFor st.color.other = 0#64
      · rw [if_pos hm] at h
        rw [if_pos hm]
        simp only [loopAbs]
        exact (Option.some.inj h).symm
      · rw [if_neg hm] at h
        rw [if_neg hm]
        split at h
        · cases h
        · rename_i k hk
          split at h
          · cases h
          · rename_i asq hsq
            split at h
            · cases h
            · rename_i apc hpc
              simp only [hk, hsq, hpc]
              by_cases hking : apc.kind = .king ∧ (st.attackers &&& b.occFor st.color.other.other) ≠ 0#64
              · rw [if_pos hking] at h
                rw [if_pos hking]
                simp only [loopAbs]
                exact (Option.some.inj h).symm
              · rw [if_neg hking] at h
                rw [if_neg hking]
                rw [loopAbs_go _ _ _ _ _ (fun hh => hstop (stop_iff.2 hh))]
                have := ih _ r h
                simp only at this
                rw [this]
                congr 1
                · rw [other_flag]
                · by_cases hc : st.color.other = mover <;> simp [hc]

theorem value_odd (k : PieceKind) (h : k ≠ .king) : pieceValue k % 200 = 100 := by
  cases k <;> first | decide | exact absurd rfl h

/-- **trace_good**: every man captured along the model's sequence is worth an odd multiple of 100 — a king
    captures only when nothing can capture back, so a king is never captured -/
theorem trace_good (b : Board) (mover : Player) (to : Sq) : ∀ (fuel : Nat) (st : St),
    (st.victim = .king → st.attackers &&& b.occFor st.color.other = 0#64) →
    Good (trace b mover to fuel st) (pieceValue st.victim) := by
  intro fuel
  induction fuel with
  | zero => intro st _; simp [trace, Good]
  | succ fuel ih =>
    intro st hinv
    unfold trace
    simp only
    by_cases hm : st.attackers &&& b.occFor st.color.other = 0#64
    · rw [if_pos hm]; trivial
    · rw [if_neg hm]
      split
      · trivial
      · split
        · trivial
        · split
          · trivial
          · rename_i apc hpc
            by_cases hking : apc.kind = .king ∧ (st.attackers &&& b.occFor st.color.other.other) ≠ 0#64
            · rw [if_pos hking]; trivial
            · rw [if_neg hking]
              refine ⟨value_odd _ (fun hk => hm (hinv hk)), ih _ ?_⟩
              intro hk'
              simp only at hk' ⊢
              have hX : st.attackers &&& b.occFor st.color.other.other = 0#64 := by
                by_cases hx : st.attackers &&& b.occFor st.color.other.other = 0#64
                · exact hx
                · exact absurd ⟨hk', hx⟩ hking
              simp only [hk', reduceCtorEq, or_self, if_false]
              rw [BitVec.and_assoc, BitVec.and_comm (st.occupied ^^^ _), ← BitVec.and_assoc, hX, BitVec.zero_and]

/-! ## `see` at threshold zero -/

theorem see_unfold (g : Game) (mv : Move) (moved : Piece) (occ : BB) (r : Bool)
    (hsrc : g.board.pieceAt mv.src = some moved) (hocc : occAfter g mv = some occ)
    (h : see g mv 0 = some r) :
    ∃ final, loop g.board g.player mv.dst 64 (initSt g mv moved occ) = some final ∧ r = decide (final ≥ 0) := by
  unfold see at h
  unfold occAfter at hocc
  simp only [bind, Option.bind, hsrc, pure] at h
  simp only at hocc
  rw [hocc] at h
  simp only at h
  split at h
  · cases h
  · rename_i final hl
    refine ⟨final, ?_, ?_⟩
    · rw [← hl]
      congr 1
      unfold initSt gain placed
      rw [St.mk.injEq]
      refine ⟨?_, ?_, rfl, rfl, rfl, rfl, rfl⟩
      · cases mv.promotion <;> cases g.board.pieceAt mv.dst <;> simp only <;> omega
      · cases mv.promotion <;> rfl
    · exact (Option.some.inj h).symm

/-! ## the independent mailbox computation is the same fold, over its own sequence -/

theorem swap_succ (t : Sq) (fuel : Nat) (b : Rules.RBoard) (c : Player) (onT : Int) :
    swap t (fuel + 1) b c onT =
      (match pickLeast (attackersOn b c t) with
      | none => (0, false)
      | some (s, k) =>
        if k == .king && !(attackersOn b c.other t).isEmpty then
          (0, decide (((attackersOn b c t).filter (fun a => a.2 == k)).length > 1))
        else
          (max 0 (onT - (swap t fuel (Rules.setSq (Rules.setSq b s none) t (some ⟨k, c⟩)) c.other (pieceValue k)).1),
           decide (((attackersOn b c t).filter (fun a => a.2 == k)).length > 1) ||
             (swap t fuel (Rules.setSq (Rules.setSq b s none) t (some ⟨k, c⟩)) c.other (pieceValue k)).2)) := by
  rfl

/-- **swap_is_swapAbs** -/
theorem swap_is_swapAbs (t : Sq) : ∀ (fuel : Nat) (b : Rules.RBoard) (c : Player) (onT : Int),
    (swap t fuel b c onT).1 = swapAbs (seq t fuel b c) onT := by
  intro fuel
  induction fuel with
  | zero => intro b c onT; rfl
  | succ fuel ih =>
    intro b c onT
    rw [swap_succ]
    unfold seq
    cases pickLeast (attackersOn b c t) with
    | none => rfl
    | some sk =>
      obtain ⟨s, k⟩ := sk
      simp only
      split
      · rfl
      · simp only [swapAbs]
        rw [← ih]

end See
end Tcheran
