import TcheranVerif.Model.See
/-!
# The pruned exchange loop computes the sign of the full swap list (C20)

`see`'s loop never builds a swap list: it keeps one running score and stops as soon as the side to capture is
already content.  `swapAbs` is the classical computation: the list of successive capturers is played out in full
and folded from the back with "capturing is optional" (`max 0`).  `abs_agree` shows both give the same verdict on
every sequence of capturers — provided the running score is never zero when the *opponent* is to capture, which
holds at threshold zero because every capturable value is an odd multiple of 100 (`Good`, `trace_good`).

`trace` is the sequence of capturers the model's own loop would use if nobody ever stopped early (same choice of
the least valuable attacker, same x-ray refreshes, same rule for the king).  `loop_trace` ties the loop to
`loopAbs` over that sequence, for every board.
-/

namespace Tcheran
namespace See

/-- the loop of `see` over a given sequence of capturer values (`opp`: the opponent of the mover is to capture) -/
def loopAbs : List Int → Bool → Int → Int → Int
  | [], _, s, _ => s
  | v :: rest, opp, s, victim =>
    if (opp = false ∧ s ≥ 0) ∨ (opp = true ∧ s ≤ 0) then s
    else loopAbs rest (!opp) (if opp then s - victim else s + victim) v

/-- the swap list folded from the back: value, for the side to capture next, of the man on the square (`onT`)
    when the remaining capturers are `vs`; standing pat is always allowed -/
def swapAbs : List Int → Int → Int
  | [], _ => 0
  | v :: rest, onT => max 0 (onT - swapAbs rest v)

/-- every man that is actually captured is worth an odd multiple of 100 -/
def Good : List Int → Int → Prop
  | [], _ => True
  | v :: rest, onT => onT % 200 = 100 ∧ Good rest v

theorem swapAbs_nonneg (vs : List Int) (onT : Int) : 0 ≤ swapAbs vs onT := by
  cases vs with
  | nil => simp [swapAbs]
  | cons v rest => simp only [swapAbs]; omega

theorem swapAbs_cons (v : Int) (rest : List Int) (onT : Int) :
    (swapAbs (v :: rest) onT = 0 ∧ onT - swapAbs rest v ≤ 0) ∨
    (swapAbs (v :: rest) onT = onT - swapAbs rest v ∧ 0 ≤ onT - swapAbs rest v) := by
  show (max 0 (onT - swapAbs rest v) = 0 ∧ _) ∨ (max 0 (onT - swapAbs rest v) = _ ∧ _)
  omega

theorem loopAbs_stop (v : Int) (rest : List Int) (opp : Bool) (s victim : Int)
    (h : (opp = false ∧ s ≥ 0) ∨ (opp = true ∧ s ≤ 0)) : loopAbs (v :: rest) opp s victim = s := by
  show (if (opp = false ∧ s ≥ 0) ∨ (opp = true ∧ s ≤ 0) then s else _) = s
  rw [if_pos h]

theorem loopAbs_go (v : Int) (rest : List Int) (opp : Bool) (s victim : Int)
    (h : ¬ ((opp = false ∧ s ≥ 0) ∨ (opp = true ∧ s ≤ 0))) :
    loopAbs (v :: rest) opp s victim = loopAbs rest (!opp) (if opp then s - victim else s + victim) v := by
  show (if (opp = false ∧ s ≥ 0) ∨ (opp = true ∧ s ≤ 0) then s else _) = _
  rw [if_neg h]

/-- **abs_agree** -/
theorem abs_agree (vs : List Int) : ∀ (s victim : Int), Good vs victim →
    (s % 200 = 100 → (0 ≤ loopAbs vs true s victim ↔ 0 ≤ s - swapAbs vs victim)) ∧
    (s % 200 = 0 → (0 ≤ loopAbs vs false s victim ↔ 0 ≤ s + swapAbs vs victim)) := by
  induction vs with
  | nil =>
    intro s victim _
    simp [loopAbs, swapAbs]
  | cons v rest ih =>
    intro s victim hg
    obtain ⟨hv, hg'⟩ := hg
    have hn := swapAbs_nonneg rest v
    have hc := swapAbs_cons v rest victim
    constructor
    · intro hs
      by_cases h0 : s ≤ 0
      · rw [loopAbs_stop v rest true s victim (Or.inr ⟨rfl, h0⟩)]
        omega
      · rw [loopAbs_go v rest true s victim (by
          intro h
          rcases h with ⟨h1, _⟩ | ⟨_, h2⟩
          · cases h1
          · exact h0 h2)]
        have := ((ih (s - victim) v hg').2 (by omega))
        simp only [Bool.not_true, if_true]
        rw [this]
        omega
    · intro hs
      by_cases h0 : s ≥ 0
      · rw [loopAbs_stop v rest false s victim (Or.inl ⟨rfl, h0⟩)]
        omega
      · rw [loopAbs_go v rest false s victim (by
          intro h
          rcases h with ⟨_, h2⟩ | ⟨h1, _⟩
          · exact h0 h2
          · cases h1)]
        have := ((ih (s + victim) v hg').1 (by omega))
        simp only [Bool.not_false, Bool.false_eq_true, if_false]
        rw [this]
        omega

/-! ## the model's own sequence of capturers -/

/-- the successive capturers of the model's loop when nobody stops early (the state is advanced exactly as in
    `loop`, score included) -/
def trace (b : Board) (mover : Player) (to : Sq) : Nat → St → List Int
  | 0, _ => []
  | fuel+1, st =>
    let color := st.color.other
    let mine := st.attackers &&& b.occFor color
    if mine = 0#64 then [] else
    match PieceKind.all.find? (fun k => (mine &&& b.piecesOf k color) ≠ 0#64) with
    | none => []
    | some k =>
      match pickSquare color (mine &&& b.piecesOf k color) with
      | none => []
      | some asq =>
        match b.pieceAt asq with
        | none => []
        | some apc =>
          let attacker := apc.kind
          if attacker = .king ∧ (st.attackers &&& b.occFor color.other) ≠ 0#64 then [] else
          let occupied := st.occupied ^^^ bb asq
          let attackers := st.attackers &&& occupied
          let diag := st.diag &&& occupied
          let orth := st.orth &&& occupied
          let attackers :=
            if attacker = .pawn ∨ attacker = .bishop ∨ attacker = .queen then
              attackers ||| (bishopAttacks to occupied &&& diag) else attackers
          let attackers :=
            if attacker = .rook ∨ attacker = .queen then
              attackers ||| (rookAttacks to occupied &&& orth) else attackers
          let score := if color = mover then st.score + pieceValue st.victim else st.score - pieceValue st.victim
          pieceValue attacker :: trace b mover to fuel { score, victim := attacker, occupied, attackers, diag, orth, color }

theorem other_ne (p : Player) : p.other ≠ p := by cases p <;> simp [Player.other]

theorem other_flag (c mover : Player) : decide (c.other ≠ mover) = !decide (c ≠ mover) := by
  cases c <;> cases mover <;> simp [Player.other]

/-- **loop_trace**: whenever the loop does not panic, its result is `loopAbs` over its own sequence of capturers -/
theorem loop_trace (b : Board) (mover : Player) (to : Sq) : ∀ (fuel : Nat) (st : St) (r : Int),
    loop b mover to fuel st = some r →
    r = loopAbs (trace b mover to fuel st) (decide (st.color.other ≠ mover)) st.score (pieceValue st.victim) := by
  intro fuel
  induction fuel with
  | zero =>
    intro st r h
    simp only [loop] at h
    simp only [trace, loopAbs]
    exact (Option.some.inj h).symm
  | succ fuel ih =>
    intro st r h
    unfold loop at h
    unfold trace
    simp only at h ⊢
    -- the abstract loop stops exactly when the concrete one does
    have stop_iff : ((st.color.other = mover ∧ st.score ≥ 0) ∨ (st.color.other ≠ mover ∧ st.score ≤ 0)) ↔
        ((decide (st.color.other ≠ mover) = false ∧ st.score ≥ 0) ∨
         (decide (st.color.other ≠ mover) = true ∧ st.score ≤ 0)) := by
      by_cases hc : st.color.other = mover <;> simp [hc]
    by_cases hstop : (st.color.other = mover ∧ st.score ≥ 0) ∨ (st.color.other ≠ mover ∧ st.score ≤ 0)
    · rw [if_pos hstop] at h
      have hr : r = st.score := (Option.some.inj h).symm
      -- whatever the sequence, the abstract loop stops at once
      generalize trace_def : (if st.attackers &&& b.occFor st.color.other = 0#64 then ([] : List Int) else _) = tr
      cases tr with
      | nil => simp only [loopAbs]; exact hr
      | cons v rest => rw [loopAbs_stop _ _ _ _ _ (stop_iff.1 hstop)]; exact hr
    · rw [if_neg hstop] at h
      by_cases hm : st.attackers &&& b.occFor st.color.other = 0#64
      · rw [if_pos hm] at h
        rw [if_pos hm]
        simp only [loopAbs]
        exact (Option.some.inj h).symm
      · rw [if_neg hm] at h
        rw [if_neg hm]
        split at h
        · cases h
        · rename_i k hk
          split at h
          · cases h
          · rename_i asq hsq
            split at h
            · cases h
            · rename_i apc hpc
              simp only [hk, hsq, hpc]
              by_cases hking : apc.kind = .king ∧ (st.attackers &&& b.occFor st.color.other.other) ≠ 0#64
              · rw [if_pos hking] at h
                rw [if_pos hking]
                simp only [loopAbs]
                exact (Option.some.inj h).symm
              · rw [if_neg hking] at h
                rw [if_neg hking]
                rw [loopAbs_go _ _ _ _ _ (fun hh => hstop (stop_iff.2 hh))]
                have := ih _ r h
                simp only at this
                rw [this]
                congr 1
                · rw [other_flag]
                · by_cases hc : st.color.other = mover <;> simp [hc]

theorem value_odd (k : PieceKind) (h : k ≠ .king) : pieceValue k % 200 = 100 := by
  cases k <;> first | decide | exact absurd rfl h

/-- **trace_good**: every man captured along the model's sequence is worth an odd multiple of 100 — a king
    captures only when nothing can capture back, so a king is never captured -/
theorem trace_good (b : Board) (mover : Player) (to : Sq) : ∀ (fuel : Nat) (st : St),
    (st.victim = .king → st.attackers &&& b.occFor st.color.other = 0#64) →
    Good (trace b mover to fuel st) (pieceValue st.victim) := by
  intro fuel
  induction fuel with
  | zero => intro st _; simp [trace, Good]
  | succ fuel ih =>
    intro st hinv
    unfold trace
    simp only
    by_cases hm : st.attackers &&& b.occFor st.color.other = 0#64
    · rw [if_pos hm]; trivial
    · rw [if_neg hm]
      split
      · trivial
      · split
        · trivial
        · split
          · trivial
          · rename_i apc hpc
            by_cases hking : apc.kind = .king ∧ (st.attackers &&& b.occFor st.color.other.other) ≠ 0#64
            · rw [if_pos hking]; trivial
            · rw [if_neg hking]
              refine ⟨value_odd _ (fun hk => hm (hinv hk)), ih _ ?_⟩
              intro hk'
              simp only at hk' ⊢
              have hX : st.attackers &&& b.occFor st.color.other.other = 0#64 := by
                by_cases hx : st.attackers &&& b.occFor st.color.other.other = 0#64
                · exact hx
                · exact absurd ⟨hk', hx⟩ hking
              simp only [hk', reduceCtorEq, or_self, if_false]
              rw [BitVec.and_assoc, BitVec.and_comm (st.occupied ^^^ _), ← BitVec.and_assoc, hX, BitVec.zero_and]

/-! ## `see` at threshold zero -/

/-- the occupancy after the first capture (`none`: an e.p. move without an e.p. square — `unwrap` panics) -/
def occAfter (g : Game) (mv : Move) : Option BB :=
  let occupied := (g.board.occupancy ^^^ bb mv.src) ||| bb mv.dst
  if mv.isEnPassant then g.ep.map (fun e => occupied ^^^ bb e) else some occupied

/-- what the mover has won by the first capture: the man taken plus the promotion surplus -/
def gain (g : Game) (mv : Move) : Int :=
  (match g.board.pieceAt mv.dst with
    | some pc => pieceValue pc.kind
    | none => if mv.isEnPassant then pieceValue .pawn else 0) +
  (match mv.promotion with
    | some pr => pieceValue pr.piece - pieceValue .pawn
    | none => 0)

/-- the man that stands on the target square after the first capture -/
def placed (moved : Piece) (mv : Move) : PieceKind :=
  match mv.promotion with
  | some pr => pr.piece
  | none => moved.kind

/-- the loop's first state -/
def initSt (g : Game) (mv : Move) (moved : Piece) (occupied : BB) : St :=
  { score := gain g mv, victim := placed moved mv, occupied,
    attackers := allAttackersOf g.board mv.dst occupied &&& occupied,
    diag := g.board.allDiagSliders &&& occupied, orth := g.board.allOrthSliders &&& occupied, color := g.player }

/-- the capturers that follow the first capture, as the model's loop would choose them -/
def capturers (g : Game) (mv : Move) (moved : Piece) (occupied : BB) : List Int :=
  trace g.board g.player mv.dst 64 (initSt g mv moved occupied)

theorem see_unfold (g : Game) (mv : Move) (moved : Piece) (occ : BB) (r : Bool)
    (hsrc : g.board.pieceAt mv.src = some moved) (hocc : occAfter g mv = some occ)
    (h : see g mv 0 = some r) :
    ∃ final, loop g.board g.player mv.dst 64 (initSt g mv moved occ) = some final ∧ r = decide (final ≥ 0) := by
  unfold see at h
  unfold occAfter at hocc
  simp only [bind, Option.bind, hsrc, pure] at h
  simp only at hocc
  rw [hocc] at h
  simp only at h
  split at h
  · cases h
  · rename_i final hl
    refine ⟨final, ?_, ?_⟩
    · rw [← hl]
      congr 1
      unfold initSt gain placed
      rw [St.mk.injEq]
      refine ⟨?_, ?_, rfl, rfl, rfl, rfl, rfl⟩
      · cases mv.promotion <;> cases g.board.pieceAt mv.dst <;> simp only <;> omega
      · cases mv.promotion <;> rfl
    · exact (Option.some.inj h).symm

end See
end Tcheran
