import TcheranVerif.Proofs.RayFacts
import TcheranVerif.Proofs.KingMoves
/-!
# Attacks as geometry + emptiness, and what a plain move does to them (pin theory of C01)
-/

namespace Tcheran
open Board Geometry Rules

theorem mem_seen_tw (occ : Sq → Bool) (R : List Sq) (q : Sq) :
    q ∈ seen occ R ↔ (q ∈ R ∧ ∀ x ∈ R.takeWhile (fun x => x != q), occ x = false) := by
  induction R with
  | nil => simp [seen]
  | cons y ys ih =>
    unfold seen
    by_cases hyq : y = q
    · subst hyq
      have : (List.takeWhile (fun x => x != y) (y :: ys)) = [] := by simp [List.takeWhile]
      rw [this]
      constructor
      · intro _; exact ⟨List.mem_cons_self, fun _ h => by cases h⟩
      · intro _
        split
        · exact List.mem_singleton.2 rfl
        · exact List.mem_cons_self
    · have hne : (y != q) = true := by simpa using hyq
      have htw : (List.takeWhile (fun x => x != q) (y :: ys)) = y :: List.takeWhile (fun x => x != q) ys := by
        simp [List.takeWhile, hne]
      rw [htw]
      by_cases hy : occ y = true
      · rw [if_pos hy]
        constructor
        · intro h; exact absurd (List.mem_singleton.1 h).symm hyq
        · rintro ⟨_, h⟩
          have := h y List.mem_cons_self
          rw [hy] at this; cases this
      · rw [if_neg hy]
        have hy' : occ y = false := by simpa using hy
        rw [List.mem_cons, ih]
        constructor
        · rintro (e | ⟨a, c⟩)
          · exact absurd e.symm hyq
          · refine ⟨List.mem_cons_of_mem _ a, fun x hx => ?_⟩
            rcases List.mem_cons.1 hx with e | e
            · rw [e]; exact hy'
            · exact c x e
        · rintro ⟨a, c⟩
          right
          refine ⟨?_, fun x hx => c x (List.mem_cons_of_mem _ hx)⟩
          rcases List.mem_cons.1 a with e | e
          · exact absurd e.symm hyq
          · exact e

/-- on a ray from `k`, `q` is seen iff the squares between are empty -/
theorem mem_seen_ray (occ : Sq → Bool) (k q : Sq) (dir : Dir) (hd : dir ∈ Dir.all) :
    q ∈ seen occ (ray dir k) ↔ (q ∈ ray dir k ∧ ∀ x ∈ betweenList k q, occ x = false) := by
  rw [mem_seen_tw]
  constructor
  · rintro ⟨a, c⟩; exact ⟨a, by rw [betweenList_ray k dir hd q a]; exact c⟩
  · rintro ⟨a, c⟩; exact ⟨a, by rw [← betweenList_ray k dir hd q a]; exact c⟩

/-- the part of `AttacksFrom` that only looks at the attacker's own square -/
def Geo (b : RBoard) (by' : Player) (q t : Sq) : Prop :=
  ∃ k, at' b q = some ⟨k, by'⟩ ∧
    ((k = .pawn ∧ (offset t (-1) (-(fwd by')) = some q ∨ offset t 1 (-(fwd by')) = some q)) ∨
     (k = .knight ∧ ∃ d ∈ knightDeltas, offset t d.1 d.2 = some q) ∨
     (k = .king ∧ ∃ d ∈ kingDeltas, offset t d.1 d.2 = some q) ∨
     ((k = .bishop ∨ k = .queen) ∧ ∃ d ∈ Dir.diagonal, q ∈ ray d t) ∨
     ((k = .rook ∨ k = .queen) ∧ ∃ d ∈ Dir.cardinal, q ∈ ray d t))

theorem bl_of_king_delta (t q : Sq) (d : Int × Int) (hd : d ∈ kingDeltas) (h : offset t d.1 d.2 = some q) :
    betweenList t q = [] := by
  have := betweenList_king t d hd
  rw [h] at this
  simpa using this

theorem bl_of_knight_delta (t q : Sq) (d : Int × Int) (hd : d ∈ knightDeltas) (h : offset t d.1 d.2 = some q) :
    betweenList t q = [] := by
  have := betweenList_knight t d hd
  rw [h] at this
  simpa using this

/-- **attack = geometry + emptiness** -/
theorem attacksFrom_iff_geo (b : RBoard) (by' : Player) (q t : Sq) :
    AttacksFrom b by' q t ↔ (Geo b by' q t ∧ ∀ x ∈ betweenList t q, occOf b x = false) := by
  unfold AttacksFrom Geo
  constructor
  · rintro ⟨k, a, h⟩
    rcases h with ⟨hk, h⟩ | ⟨hk, d, hd, h⟩ | ⟨hk, d, hd, h⟩ | ⟨hk, d, hd, h⟩ | ⟨hk, d, hd, h⟩
    · refine ⟨⟨k, a, Or.inl ⟨hk, h⟩⟩, ?_⟩
      have hb : betweenList t q = [] := by
        rcases h with h | h
        · exact bl_of_king_delta t q (-1, -(fwd by')) (pawn_delta_king by' (by cases by' <;> simp) (-1) (by simp)) h
        · exact bl_of_king_delta t q (1, -(fwd by')) (pawn_delta_king by' (by cases by' <;> simp) 1 (by simp)) h
      rw [hb]; intro x hx; cases hx
    · refine ⟨⟨k, a, Or.inr (Or.inl ⟨hk, d, hd, h⟩)⟩, ?_⟩
      rw [bl_of_knight_delta t q d hd h]; intro x hx; cases hx
    · refine ⟨⟨k, a, Or.inr (Or.inr (Or.inl ⟨hk, d, hd, h⟩))⟩, ?_⟩
      rw [bl_of_king_delta t q d hd h]; intro x hx; cases hx
    · have := (mem_seen_ray (occOf b) t q d (diagonal_sub d hd)).1 h
      exact ⟨⟨k, a, Or.inr (Or.inr (Or.inr (Or.inl ⟨hk, d, hd, this.1⟩)))⟩, this.2⟩
    · have := (mem_seen_ray (occOf b) t q d (cardinal_sub d hd)).1 h
      exact ⟨⟨k, a, Or.inr (Or.inr (Or.inr (Or.inr ⟨hk, d, hd, this.1⟩)))⟩, this.2⟩
  · rintro ⟨⟨k, a, h⟩, he⟩
    refine ⟨k, a, ?_⟩
    rcases h with h | h | h | ⟨hk, d, hd, h⟩ | ⟨hk, d, hd, h⟩
    · exact Or.inl h
    · exact Or.inr (Or.inl h)
    · exact Or.inr (Or.inr (Or.inl h))
    · exact Or.inr (Or.inr (Or.inr (Or.inl ⟨hk, d, hd,
        (mem_seen_ray (occOf b) t q d (diagonal_sub d hd)).2 ⟨h, he⟩⟩)))
    · exact Or.inr (Or.inr (Or.inr (Or.inr ⟨hk, d, hd,
        (mem_seen_ray (occOf b) t q d (cardinal_sub d hd)).2 ⟨h, he⟩⟩)))

theorem geo_congr (b1 b2 : RBoard) (by' : Player) (q t : Sq) (h : at' b1 q = at' b2 q) :
    Geo b1 by' q t ↔ Geo b2 by' q t := by
  unfold Geo; rw [h]

/-! ### a plain move of a man other than the king -/

/-- what a plain (non-castling, non-e.p.) move of a non-king man from `s` to `d` does to the mailbox -/
structure PlainStep (b b' : RBoard) (p : Player) (s d : Sq) : Prop where
  src_own : ∃ X, at' b s = some X ∧ X.player = p
  dst_own : ∃ Y, at' b' d = some Y ∧ Y.player = p ∧ Y.kind ≠ .king
  src_empty : at' b' s = none
  off : ∀ x, x ≠ s → x ≠ d → at' b' x = at' b x
  ne : s ≠ d

/-- **legal_iff**: after a plain move of a non-king man the king on `k` is attacked exactly by the
enemy men that attack it "through `s`" and are neither captured on `d` nor blocked by `d` -/
theorem plain_attacked_iff (b b' : RBoard) (p : Player) (k s d : Sq) (h : PlainStep b b' p s d)
    (hsk : s ≠ k) (hdk : d ≠ k) :
    attacked b' p.other k = true ↔
      ∃ q, Geo b p.other q k ∧ q ≠ d ∧ d ∉ betweenList k q ∧
        ∀ x ∈ betweenList k q, x = s ∨ occOf b x = false := by
  rw [attacked_iff]
  have hpo : ∀ X : Piece, X.player = p → X.player ≠ p.other := by
    intro X e; rw [e]; cases p <;> simp [Player.other]
  obtain ⟨X, hX, hXp⟩ := h.src_own
  obtain ⟨Y, hY, hYp, _⟩ := h.dst_own
  have hocc' : ∀ x, occOf b' x = false ↔ (x ≠ d ∧ (x = s ∨ occOf b x = false)) := by
    intro x
    unfold occOf
    by_cases h1 : x = d
    · subst h1; rw [hY]; simp
    · by_cases h2 : x = s
      · subst h2; rw [h.src_empty]; simp [h1]
      · rw [h.off x h2 h1]; simp [h1, h2]
  constructor
  · rintro ⟨q, hq⟩
    obtain ⟨hg, he⟩ := (attacksFrom_iff_geo b' p.other q k).1 hq
    have hqd : q ≠ d := by
      intro e; subst e
      obtain ⟨kk, a, _⟩ := hg
      rw [hY] at a
      have := hpo Y hYp
      rw [Option.some.inj a] at this
      exact this rfl
    have hqs : q ≠ s := by
      intro e; subst e
      obtain ⟨kk, a, _⟩ := hg
      rw [h.src_empty] at a; cases a
    refine ⟨q, (geo_congr b' b p.other q k (h.off q hqs hqd)).1 hg, hqd, ?_, ?_⟩
    · intro hm; exact ((hocc' d).1 (he d hm)).1 rfl
    · intro x hx; exact ((hocc' x).1 (he x hx)).2
  · rintro ⟨q, hg, hqd, hdn, he⟩
    have hqs : q ≠ s := by
      intro e; subst e
      obtain ⟨kk, a, _⟩ := hg
      rw [hX] at a
      have := hpo X hXp
      rw [Option.some.inj a] at this
      exact this rfl
    refine ⟨q, (attacksFrom_iff_geo b' p.other q k).2
      ⟨(geo_congr b' b p.other q k (h.off q hqs hqd)).2 hg, ?_⟩⟩
    intro x hx
    exact (hocc' x).2 ⟨fun e => hdn (e ▸ hx), he x hx⟩

end Tcheran
