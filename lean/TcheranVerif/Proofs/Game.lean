import TcheranVerif.Proofs.Board
import TcheranVerif.Proofs.Folds
import TcheranVerif.Model.Game
/-!
# `Sync`: the carried key and accumulators equal their recomputation, for any key / parameter table

`Sync c g` = the three board views agree ∧ `g.zobrist = zobrist::hash(g)` ∧ `g.inc =
IncrementalEvalFields::init(g.board)`. Each primitive of `make_move` (`set_at` on an empty square,
`remove_at`, `try_remove_castle_rights`, the e.p. update, the side flip) preserves it; so do
`make_move`, `make_null_move`, and the take-backs (which restore history entries that were in sync).
-/

namespace Tcheran
open Board Game

def sqs : List Sq := List.finRange 64

theorem sqs_nodup : sqs.Nodup := List.nodup_finRange 64
theorem mem_sqs (s : Sq) : s ∈ sqs := List.mem_finRange s

/-! ### the key as one XOR-sum over the mailbox -/

def contrib (c : Cfg) (b : Board) (s : Sq) : BB :=
  match b.pieceAt s with
  | some pc => c.zPiece pc.player pc.kind s
  | none => 0#64

def pieceHash (c : Cfg) (b : Board) : BB := xsum sqs (contrib c b)

def bsel (b : Bool) (x : BB) : BB := if b then x else 0#64

@[simp] theorem bsel_true (x : BB) : bsel true x = x := rfl
@[simp] theorem bsel_false (x : BB) : bsel false x = 0#64 := rfl

def rightsHash (c : Cfg) (r : Rights) : BB :=
  bsel r.white.kingSide (c.zCastle .white .king) ^^^ bsel r.white.queenSide (c.zCastle .white .queen) ^^^
  bsel r.black.kingSide (c.zCastle .black .king) ^^^ bsel r.black.queenSide (c.zCastle .black .queen)

def sideHash (c : Cfg) (p : Player) : BB := if p = .black then c.zSide else 0#64

def fullHash (c : Cfg) (b : Board) (p : Player) (r : Rights) (ep : Option Sq) : BB :=
  pieceHash c b ^^^ rightsHash c r ^^^ c.zEpOpt ep ^^^ sideHash c p

theorem mem_piecesOf (b : Board) (hc : Consistent b) (k : PieceKind) (p : Player) (s : Sq) :
    mem (b.piecesOf k p) s = decide (b.pieceAt s = some ⟨k, p⟩) := by
  unfold piecesOf
  rw [mem_and, hc.1, hc.2]
  cases h : b.pieceAt s with
  | none => simp
  | some pc =>
    cases pc with
    | mk k0 p0 =>
      simp only [Option.map_some, Option.some.injEq, Piece.mk.injEq]
      by_cases hk : k0 = k <;> by_cases hp : p0 = p <;> simp [hk, hp]

/-- the twelve per-kind, per-colour loops of `zobrist::hash` add up to one pass over the mailbox -/
theorem pointwise_contrib (c : Cfg) (b : Board) (hc : Consistent b) (s : Sq) :
    (if mem (b.piecesOf .pawn .white) s then c.zPiece .white .pawn s else 0#64) ^^^
    (if mem (b.piecesOf .knight .white) s then c.zPiece .white .knight s else 0#64) ^^^
    (if mem (b.piecesOf .bishop .white) s then c.zPiece .white .bishop s else 0#64) ^^^
    (if mem (b.piecesOf .rook .white) s then c.zPiece .white .rook s else 0#64) ^^^
    (if mem (b.piecesOf .queen .white) s then c.zPiece .white .queen s else 0#64) ^^^
    (if mem (b.piecesOf .king .white) s then c.zPiece .white .king s else 0#64) ^^^
    (if mem (b.piecesOf .pawn .black) s then c.zPiece .black .pawn s else 0#64) ^^^
    (if mem (b.piecesOf .knight .black) s then c.zPiece .black .knight s else 0#64) ^^^
    (if mem (b.piecesOf .bishop .black) s then c.zPiece .black .bishop s else 0#64) ^^^
    (if mem (b.piecesOf .rook .black) s then c.zPiece .black .rook s else 0#64) ^^^
    (if mem (b.piecesOf .queen .black) s then c.zPiece .black .queen s else 0#64) ^^^
    (if mem (b.piecesOf .king .black) s then c.zPiece .black .king s else 0#64) = contrib c b s := by
  simp only [mem_piecesOf b hc]
  unfold contrib
  cases h : b.pieceAt s with
  | none => simp
  | some pc =>
    cases pc with
    | mk k0 p0 => cases k0 <;> cases p0 <;> simp

theorem hash_eq_fullHash (c : Cfg) (b : Board) (hc : Consistent b) (p : Player) (r : Rights) (ep : Option Sq) :
    Game.hash c b p r ep = fullHash c b p r ep := by
  unfold Game.hash fullHash
  simp only [PieceKind.all, List.foldl_cons, List.foldl_nil, foldl_toList]
  have hp : pieceHash c b =
      xsum sqs (fun s => if mem (b.piecesOf .pawn .white) s then c.zPiece .white .pawn s else 0#64) ^^^
      xsum sqs (fun s => if mem (b.piecesOf .knight .white) s then c.zPiece .white .knight s else 0#64) ^^^
      xsum sqs (fun s => if mem (b.piecesOf .bishop .white) s then c.zPiece .white .bishop s else 0#64) ^^^
      xsum sqs (fun s => if mem (b.piecesOf .rook .white) s then c.zPiece .white .rook s else 0#64) ^^^
      xsum sqs (fun s => if mem (b.piecesOf .queen .white) s then c.zPiece .white .queen s else 0#64) ^^^
      xsum sqs (fun s => if mem (b.piecesOf .king .white) s then c.zPiece .white .king s else 0#64) ^^^
      xsum sqs (fun s => if mem (b.piecesOf .pawn .black) s then c.zPiece .black .pawn s else 0#64) ^^^
      xsum sqs (fun s => if mem (b.piecesOf .knight .black) s then c.zPiece .black .knight s else 0#64) ^^^
      xsum sqs (fun s => if mem (b.piecesOf .bishop .black) s then c.zPiece .black .bishop s else 0#64) ^^^
      xsum sqs (fun s => if mem (b.piecesOf .rook .black) s then c.zPiece .black .rook s else 0#64) ^^^
      xsum sqs (fun s => if mem (b.piecesOf .queen .black) s then c.zPiece .black .queen s else 0#64) ^^^
      xsum sqs (fun s => if mem (b.piecesOf .king .black) s then c.zPiece .black .king s else 0#64) := by
    unfold pieceHash
    rw [← xsum_congr sqs _ _ (fun s _ => pointwise_contrib c b hc s)]
    simp only [xsum_xor]
  rw [hp]
  unfold rightsHash sideHash sqs
  cases r with
  | mk w bl =>
    cases w with
    | mk wk wq =>
      cases bl with
      | mk bk bq =>
        cases wk <;> cases wq <;> cases bk <;> cases bq <;> cases p <;> simp <;> ac_rfl

theorem pieceHash_setAt (c : Cfg) (b : Board) (s : Sq) (pc : Piece) (he : b.pieceAt s = none) :
    pieceHash c (b.setAt s pc) = pieceHash c b ^^^ c.zPiece pc.player pc.kind s := by
  unfold pieceHash
  rw [xsum_update sqs sqs_nodup (contrib c b) (contrib c (b.setAt s pc)) s (mem_sqs s)]
  · unfold contrib
    rw [pieceAt_setAt, he]
    simp
  · intro t ht
    unfold contrib
    rw [pieceAt_setAt]
    simp [ht]

theorem pieceHash_removeAt (c : Cfg) (b : Board) (s : Sq) (pc : Piece) (hp : b.pieceAt s = some pc) :
    pieceHash c (b.removeAt s) = pieceHash c b ^^^ c.zPiece pc.player pc.kind s := by
  unfold pieceHash
  rw [xsum_update sqs sqs_nodup (contrib c b) (contrib c (b.removeAt s)) s (mem_sqs s)]
  · unfold contrib
    rw [pieceAt_removeAt, hp]
    simp
  · intro t ht
    unfold contrib
    rw [pieceAt_removeAt]
    simp [ht]

/-! ### the accumulators as sums over the mailbox -/

def phaseC (c : Cfg) (b : Board) (s : Sq) : Int :=
  match b.pieceAt s with
  | some pc => c.phase pc.kind
  | none => 0

def pstC (c : Cfg) (b : Board) (s : Sq) : Int :=
  match b.pieceAt s with
  | some pc => c.pst pc.player pc.kind s
  | none => 0

theorem incInit_eq (c : Cfg) (b : Board) :
    Game.incInit c b = ⟨isum sqs (phaseC c b), isum sqs (pstC c b)⟩ := by
  unfold Game.incInit
  have : ∀ (l : List Sq) (a : Inc),
      l.foldl (fun acc s => match b.pieceAt s with
        | some pc => { phase := acc.phase + c.phase pc.kind, pst := acc.pst + c.pst pc.player pc.kind s }
        | none => acc) a = ⟨a.phase + isum l (phaseC c b), a.pst + isum l (pstC c b)⟩ := by
    intro l
    induction l with
    | nil => intro a; simp [isum]
    | cons x xs ih =>
      intro a
      simp only [List.foldl_cons]
      rw [ih, isum_cons, isum_cons]
      unfold phaseC pstC
      cases b.pieceAt x with
      | none => simp
      | some pc => simp only; congr 1 <;> omega
  exact (this (List.finRange 64) ⟨0, 0⟩).trans (by simp [sqs])

theorem isum_phase_setAt (c : Cfg) (b : Board) (s : Sq) (pc : Piece) (he : b.pieceAt s = none) :
    isum sqs (phaseC c (b.setAt s pc)) = isum sqs (phaseC c b) + c.phase pc.kind := by
  rw [isum_update sqs sqs_nodup (phaseC c b) (phaseC c (b.setAt s pc)) s (mem_sqs s)]
  · unfold phaseC; rw [pieceAt_setAt, he]; simp
  · intro t ht; unfold phaseC; rw [pieceAt_setAt]; simp [ht]

theorem isum_pst_setAt (c : Cfg) (b : Board) (s : Sq) (pc : Piece) (he : b.pieceAt s = none) :
    isum sqs (pstC c (b.setAt s pc)) = isum sqs (pstC c b) + c.pst pc.player pc.kind s := by
  rw [isum_update sqs sqs_nodup (pstC c b) (pstC c (b.setAt s pc)) s (mem_sqs s)]
  · unfold pstC; rw [pieceAt_setAt, he]; simp
  · intro t ht; unfold pstC; rw [pieceAt_setAt]; simp [ht]

theorem isum_phase_removeAt (c : Cfg) (b : Board) (s : Sq) (pc : Piece) (hp : b.pieceAt s = some pc) :
    isum sqs (phaseC c (b.removeAt s)) = isum sqs (phaseC c b) - c.phase pc.kind := by
  rw [isum_update sqs sqs_nodup (phaseC c b) (phaseC c (b.removeAt s)) s (mem_sqs s)]
  · unfold phaseC; rw [pieceAt_removeAt, hp]; simp
  · intro t ht; unfold phaseC; rw [pieceAt_removeAt]; simp [ht]

theorem isum_pst_removeAt (c : Cfg) (b : Board) (s : Sq) (pc : Piece) (hp : b.pieceAt s = some pc) :
    isum sqs (pstC c (b.removeAt s)) = isum sqs (pstC c b) - c.pst pc.player pc.kind s := by
  rw [isum_update sqs sqs_nodup (pstC c b) (pstC c (b.removeAt s)) s (mem_sqs s)]
  · unfold pstC; rw [pieceAt_removeAt, hp]; simp
  · intro t ht; unfold pstC; rw [pieceAt_removeAt]; simp [ht]

/-! ### `Sync` and its preservation -/

structure Sync (c : Cfg) (g : Game) : Prop where
  cons : g.board.Consistent
  key : g.zobrist = fullHash c g.board g.player g.rights g.ep
  inc : g.inc = Game.incInit c g.board

theorem sync_setAt (c : Cfg) (g : Game) (s : Sq) (pc : Piece) (h : Sync c g) (he : g.board.pieceAt s = none) :
    Sync c (Game.setAt c g s pc) := by
  refine ⟨consistent_setAt _ s pc h.cons he, ?_, ?_⟩
  · simp only [Game.setAt]
    rw [h.key]
    unfold fullHash
    rw [pieceHash_setAt c _ s pc he]
    ac_rfl
  · simp only [Game.setAt]
    rw [h.inc, incInit_eq, incInit_eq, isum_phase_setAt c _ s pc he, isum_pst_setAt c _ s pc he]

theorem removeAt_spec (c : Cfg) (g g' : Game) (s : Sq) (pc : Piece) (hr : Game.removeAt c g s = some (g', pc)) :
    g.board.pieceAt s = some pc ∧
    g' = { g with board := g.board.removeAt s,
                  zobrist := g.zobrist ^^^ c.zPiece pc.player pc.kind s,
                  inc := { phase := g.inc.phase - c.phase pc.kind, pst := g.inc.pst - c.pst pc.player pc.kind s } } := by
  unfold Game.removeAt at hr
  cases hp : g.board.pieceAt s with
  | none => rw [hp] at hr; cases hr
  | some pc' =>
    rw [hp] at hr
    simp only [Option.some.injEq, Prod.mk.injEq] at hr
    obtain ⟨h1, h2⟩ := hr
    subst h2
    exact ⟨rfl, h1.symm⟩

theorem sync_removeAt (c : Cfg) (g g' : Game) (s : Sq) (pc : Piece) (h : Sync c g)
    (hr : Game.removeAt c g s = some (g', pc)) : Sync c g' := by
  obtain ⟨hp, e⟩ := removeAt_spec c g g' s pc hr
  subst e
  refine ⟨consistent_removeAt _ s h.cons, ?_, ?_⟩
  · simp only
    rw [h.key]
    unfold fullHash
    rw [pieceHash_removeAt c _ s pc hp]
    ac_rfl
  · simp only
    rw [h.inc, incInit_eq, incInit_eq, isum_phase_removeAt c _ s pc hp, isum_pst_removeAt c _ s pc hp]

theorem xor_self_cancel (z rest : BB) : z ^^^ z ^^^ rest = rest := by
  rw [BitVec.xor_self]; simp

theorem rightsHash_remove (c : Cfg) (r : Rights) (p : Player) (side : Side) (hh : Rights.has r p side = true) :
    rightsHash c (Rights.remove r p side) = rightsHash c r ^^^ c.zCastle p side := by
  cases r with
  | mk w bl =>
    cases w with
    | mk wk wq =>
      cases bl with
      | mk bk bq =>
        cases p <;> cases side <;> simp only [Rights.has, Rights.forP] at hh <;> subst hh <;>
          simp only [rightsHash, Rights.remove, bsel_true, bsel_false]
        · rw [← xor_self_cancel (c.zCastle .white .king)
            (0#64 ^^^ bsel wq (c.zCastle .white .queen) ^^^ bsel bk (c.zCastle .black .king) ^^^ bsel bq (c.zCastle .black .queen))]
          simp only [BitVec.zero_xor]; ac_rfl
        · rw [← xor_self_cancel (c.zCastle .white .queen)
            (bsel wk (c.zCastle .white .king) ^^^ 0#64 ^^^ bsel bk (c.zCastle .black .king) ^^^ bsel bq (c.zCastle .black .queen))]
          simp only [BitVec.xor_zero]; ac_rfl
        · rw [← xor_self_cancel (c.zCastle .black .king)
            (bsel wk (c.zCastle .white .king) ^^^ bsel wq (c.zCastle .white .queen) ^^^ 0#64 ^^^ bsel bq (c.zCastle .black .queen))]
          simp only [BitVec.xor_zero]; ac_rfl
        · rw [← xor_self_cancel (c.zCastle .black .queen)
            (bsel wk (c.zCastle .white .king) ^^^ bsel wq (c.zCastle .white .queen) ^^^ bsel bk (c.zCastle .black .king) ^^^ 0#64)]
          simp only [BitVec.xor_zero]; ac_rfl

theorem sync_tryRemoveRights (c : Cfg) (g : Game) (p : Player) (side : Side) (h : Sync c g) :
    Sync c (tryRemoveRights c g p side) := by
  unfold tryRemoveRights
  cases hh : Rights.has g.rights p side with
  | false => simpa using h
  | true =>
    simp only [Bool.not_true, Bool.false_eq_true, if_false]
    refine ⟨h.cons, ?_, h.inc⟩
    simp only
    rw [h.key]
    unfold fullHash
    rw [rightsHash_remove c _ p side hh]
    ac_rfl

theorem tryRemoveRights_fields (c : Cfg) (g : Game) (p : Player) (side : Side) :
    (tryRemoveRights c g p side).board = g.board ∧ (tryRemoveRights c g p side).player = g.player ∧
    (tryRemoveRights c g p side).ep = g.ep ∧ (tryRemoveRights c g p side).history = g.history ∧
    (tryRemoveRights c g p side).halfmove = g.halfmove ∧ (tryRemoveRights c g p side).plies = g.plies := by
  unfold tryRemoveRights
  split <;> simp

theorem sync_mmSetEp (c : Cfg) (g : Game) (ne : Option Sq) (h : Sync c g) : Sync c (mmSetEp c g ne) := by
  refine ⟨h.cons, ?_, h.inc⟩
  simp only [mmSetEp]
  rw [h.key]
  unfold fullHash
  have : ∀ x : BB, x ^^^ x = 0#64 := fun x => BitVec.xor_self
  have e : pieceHash c g.board ^^^ rightsHash c g.rights ^^^ c.zEpOpt g.ep ^^^ sideHash c g.player ^^^ c.zEpOpt g.ep ^^^ c.zEpOpt ne
      = (c.zEpOpt g.ep ^^^ c.zEpOpt g.ep) ^^^ (pieceHash c g.board ^^^ rightsHash c g.rights ^^^ c.zEpOpt ne ^^^ sideHash c g.player) := by
    ac_rfl
  rw [e, this]
  simp

theorem sideHash_other (c : Cfg) (p : Player) : sideHash c p.other = sideHash c p ^^^ c.zSide := by
  cases p <;> simp [sideHash, Player.other]

theorem sync_mmFinish (c : Cfg) (g : Game) (moved : Piece) (cap : Option Piece) (h : Sync c g) :
    Sync c (mmFinish c g moved cap) := by
  refine ⟨h.cons, ?_, h.inc⟩
  simp only [mmFinish]
  rw [h.key]
  unfold fullHash
  rw [sideHash_other]
  ac_rfl

theorem sync_history (c : Cfg) (g : Game) (hs : List History) (h : Sync c g) : Sync c { g with history := hs } :=
  ⟨h.cons, h.key, h.inc⟩

theorem sync_mmRights (c : Cfg) (g : Game) (mv : Move) (moved : Piece) (cap : Option Piece) (h : Sync c g) :
    Sync c (mmRights c g mv moved cap) := by
  unfold mmRights
  simp only
  have step1 : Sync c (if moved.kind = .king ∧ mv.src = kingStart g.player then
        tryRemoveRights c (tryRemoveRights c g g.player .king) g.player .queen
      else if moved.kind = .rook then
        if mv.src = kingsideRookStart g.player then tryRemoveRights c g g.player .king
        else if mv.src = queensideRookStart g.player then tryRemoveRights c g g.player .queen
        else g
      else g) := by
    split
    · exact sync_tryRemoveRights c _ _ _ (sync_tryRemoveRights c _ _ _ h)
    · split
      · split
        · exact sync_tryRemoveRights c _ _ _ h
        · split
          · exact sync_tryRemoveRights c _ _ _ h
          · exact h
      · exact h
  split
  · split
    · exact sync_tryRemoveRights c _ _ _ step1
    · split
      · exact sync_tryRemoveRights c _ _ _ step1
      · exact step1
  · exact step1

end Tcheran
