import TcheranVerif.Proofs.Undo
import TcheranVerif.Proofs.Castling
import TcheranVerif.Proofs.Geo.G
/-!
# `make_refines`: `make_move` produces the position the rules prescribe (C02)
-/

namespace Tcheran
open Board Game Rules

theorem pawnDouble_eq (p : Player) : Game.pawnDoublePushRank p = pawnDouble p := by cases p <;> rfl

theorem mem_west_bb (d x : Sq) : mem (BB.west (bb d)) x = true ↔ offset d (-1) 0 = some x := by
  have := inDir_bb .W (dir_mem_all .W) d
  change BB.west (bb d) = ofOpt (d.step .W) at this
  rw [this]
  show _ ↔ Sq.mk? _ _ = some x
  unfold Sq.step Dir.delta
  simp only
  cases h : Sq.mk? (↑d.file + -1) (↑d.rank + 0) with
  | none => simp [ofOpt, mem_zero]
  | some t => simp [ofOpt, mem_bb, eq_comm]

theorem mem_east_bb (d x : Sq) : mem (BB.east (bb d)) x = true ↔ offset d 1 0 = some x := by
  have := inDir_bb .E (dir_mem_all .E) d
  change BB.east (bb d) = ofOpt (d.step .E) at this
  rw [this]
  show _ ↔ Sq.mk? _ _ = some x
  unfold Sq.step Dir.delta
  simp only
  cases h : Sq.mk? (↑d.file + 1) (↑d.rank + 0) with
  | none => simp [ofOpt, mem_zero]
  | some t => simp [ofOpt, mem_bb, eq_comm]

theorem remove_idem_has (r : Rights) (p : Player) (side : Side) (h : Rights.has r p side = false) :
    Rights.remove r p side = r := by
  cases p <;> cases side <;> (obtain ⟨⟨a, b⟩, ⟨c, d⟩⟩ := r) <;>
    simp [Rights.has, Rights.forP, Rights.remove] at h ⊢ <;> exact h

theorem try_rights (c : Cfg) (g : Game) (p : Player) (side : Side) :
    (tryRemoveRights c g p side).rights = Rights.remove g.rights p side := by
  unfold tryRemoveRights
  split
  · rename_i h
    have : Rights.has g.rights p side = false := by simpa using h
    exact (remove_idem_has _ _ _ this).symm
  · rfl

theorem try_player (c : Cfg) (g : Game) (p : Player) (side : Side) :
    (tryRemoveRights c g p side).player = g.player := (tryRemoveRights_fields c g p side).2.1

/-- first block of `mmRights`: rights lost by the mover -/
def moverBlock (c : Cfg) (g : Game) (mv : Move) (moved : Piece) : Game :=
  if moved.kind = .king ∧ mv.src = kingStart g.player then
    tryRemoveRights c (tryRemoveRights c g g.player .king) g.player .queen
  else if moved.kind = .rook then
    if mv.src = kingsideRookStart g.player then tryRemoveRights c g g.player .king
    else if mv.src = queensideRookStart g.player then tryRemoveRights c g g.player .queen
    else g
  else g

def moverRights (r : Rights) (p : Player) (mv : Move) (moved : Piece) : Rights :=
  if moved.kind = .king ∧ mv.src = kingStart p then Rights.remove (Rights.remove r p .king) p .queen
  else if moved.kind = .rook then
    if mv.src = kingsideRookStart p then Rights.remove r p .king
    else if mv.src = queensideRookStart p then Rights.remove r p .queen
    else r
  else r

theorem moverBlock_spec (c : Cfg) (g : Game) (mv : Move) (moved : Piece) :
    (moverBlock c g mv moved).rights = moverRights g.rights g.player mv moved ∧
    (moverBlock c g mv moved).player = g.player := by
  unfold moverBlock moverRights
  split
  · exact ⟨by rw [try_rights, try_rights], by rw [try_player, try_player]⟩
  · split
    · split
      · exact ⟨try_rights _ _ _ _, try_player _ _ _ _⟩
      · split
        · exact ⟨try_rights _ _ _ _, try_player _ _ _ _⟩
        · exact ⟨rfl, rfl⟩
    · exact ⟨rfl, rfl⟩

def capturedRights (r : Rights) (o : Player) (mv : Move) (cap : Option Piece) : Rights :=
  if cap.isSome then
    if mv.dst = kingsideRookStart o then Rights.remove r o .king
    else if mv.dst = queensideRookStart o then Rights.remove r o .queen
    else r
  else r

def rightsAfter' (r : Rights) (p : Player) (mv : Move) (moved : Piece) (cap : Option Piece) : Rights :=
  capturedRights (moverRights r p mv moved) p.other mv cap

theorem mmRights_rights (c : Cfg) (g : Game) (mv : Move) (moved : Piece) (cap : Option Piece) :
    (mmRights c g mv moved cap).rights = rightsAfter' g.rights g.player mv moved cap := by
  have hm := moverBlock_spec c g mv moved
  have e : mmRights c g mv moved cap =
      (if cap.isSome then
        if mv.dst = kingsideRookStart g.player.other then tryRemoveRights c (moverBlock c g mv moved) g.player.other .king
        else if mv.dst = queensideRookStart g.player.other then
          tryRemoveRights c (moverBlock c g mv moved) g.player.other .queen
        else moverBlock c g mv moved
      else moverBlock c g mv moved) := rfl
  rw [e]
  unfold rightsAfter' capturedRights
  rw [← hm.1]
  split
  · split
    · exact try_rights _ _ _ _
    · split
      · exact try_rights _ _ _ _
      · rfl
  · rfl

end Tcheran

namespace Tcheran
open Board Game Rules

theorem rook_starts_ne (p : Player) : kingsideRookStart p ≠ queensideRookStart p := by cases p <;> decide

/-- the rules' rights computation, for a mover of the side to move -/
theorem rules_rights (r : Rights) (p : Player) (mv : Move) (M : Piece) (cap : Option Piece) (hM : M.player = p) :
    (let r0 := r
     let r1 := if (some M == some (⟨.king, p⟩ : Piece)) && mv.src == kingStart p then
        dropRight (dropRight r0 p .king) p .queen else r0
     let r2 := if (some M == some (⟨.rook, p⟩ : Piece)) && mv.src == kingsideRookStart p then dropRight r1 p .king else r1
     let r3 := if (some M == some (⟨.rook, p⟩ : Piece)) && mv.src == queensideRookStart p then dropRight r2 p .queen else r2
     let r4 := if cap.isSome && mv.dst == kingsideRookStart p.other then dropRight r3 p.other .king else r3
     let r5 := if cap.isSome && mv.dst == queensideRookStart p.other then dropRight r4 p.other .queen else r4
     r5) = rightsAfter' r p mv M cap := by
  obtain ⟨kk, pl⟩ := M
  simp only at hM
  subst hM
  unfold rightsAfter' capturedRights moverRights dropRight
  have hne := rook_starts_ne pl
  have hne2 := rook_starts_ne pl.other
  by_cases hc : cap.isSome = true
  · by_cases hd1 : mv.dst = kingsideRookStart pl.other
    · have hd2 : ¬ mv.dst = queensideRookStart pl.other := fun e => hne2 (hd1.symm.trans e)
      cases kk <;> by_cases hs1 : mv.src = kingStart pl <;> by_cases hs2 : mv.src = kingsideRookStart pl <;>
        by_cases hs3 : mv.src = queensideRookStart pl <;> simp_all
    · by_cases hd2 : mv.dst = queensideRookStart pl.other
      · cases kk <;> by_cases hs1 : mv.src = kingStart pl <;> by_cases hs2 : mv.src = kingsideRookStart pl <;>
          by_cases hs3 : mv.src = queensideRookStart pl <;> simp_all
      · cases kk <;> by_cases hs1 : mv.src = kingStart pl <;> by_cases hs2 : mv.src = kingsideRookStart pl <;>
          by_cases hs3 : mv.src = queensideRookStart pl <;> simp_all
  · cases kk <;> by_cases hs1 : mv.src = kingStart pl <;> by_cases hs2 : mv.src = kingsideRookStart pl <;>
      by_cases hs3 : mv.src = queensideRookStart pl <;> simp_all

end Tcheran

namespace Tcheran
open Board Game Rules

theorem mmCastle_fields (c : Cfg) (x y : Game) (mv : Move) (h : mmCastle c x mv = some y) :
    y.player = x.player ∧ y.rights = x.rights ∧ y.ep = x.ep ∧ y.halfmove = x.halfmove ∧ y.plies = x.plies := by
  unfold mmCastle at h
  split at h
  · split at h
    · simp only [bind, Option.bind_eq_some_iff] at h
      obtain ⟨⟨g1, rook⟩, h1, h2⟩ := h
      have e := Option.some.inj h2
      subst e
      obtain ⟨a1, a2, a3, a4, a5, _⟩ := removeAt_fields c x g1 _ rook h1
      obtain ⟨b1, b2, b3, b4, b5, _⟩ := setAt_fields c g1 (by assumption) rook
      exact ⟨b1.trans a1, b2.trans a2, b3.trans a3, b4.trans a4, b5.trans a5⟩
    · have e := Option.some.inj h; subst e; exact ⟨rfl, rfl, rfl, rfl, rfl⟩
  · have e := Option.some.inj h; subst e; exact ⟨rfl, rfl, rfl, rfl, rfl⟩

theorem pos_ext (a b : Pos) (h1 : a.board = b.board) (h2 : a.player = b.player) (h3 : a.rights = b.rights)
    (h4 : a.ep = b.ep) (h5 : a.halfmove = b.halfmove) (h6 : a.plies = b.plies) : a = b := by
  cases a; cases b; simp only at *; subst h1 h2 h3 h4 h5 h6; rfl

/-- the e.p. target computed by `make_move` is the rules' -/
theorem newEp_rules (b1 : Board) (hc1 : Consistent b1) (p : Player) (mv : Move) (moved : Piece) (newEp : Option Sq)
    (h : (if moved.kind = .pawn ∧ mem (pawnBackRank p) mv.src ∧ mem (pawnDoublePushRank p) mv.dst then
            (if ((BB.west (bb mv.dst) ||| BB.east (bb mv.dst)) &&& b1.pawnsOf p.other) ≠ 0#64 then
              (mv.src.forward p).map some else some none)
          else some none) = some newEp) :
    newEp = (if (some moved).any (fun pc => pc.kind == .pawn) && decide (mv.src.rank = startRank p) &&
                decide ((mv.dst.rank : Int) = mv.src.rank + 2 * fwd p) then
              (if isPiece b1.squares (offset mv.dst (-1) 0) .pawn p.other ||
                  isPiece b1.squares (offset mv.dst 1 0) .pawn p.other then offset mv.src 0 (fwd p) else none)
            else none) := by
  have hranks := Geo.double_step_ranks mv.src mv.dst p (by cases p <;> simp)
  rw [← pawnHome_eq, ← pawnDouble_eq] at hranks
  have hadj : (((BB.west (bb mv.dst) ||| BB.east (bb mv.dst)) &&& b1.pawnsOf p.other) ≠ 0#64) ↔
      (isPiece b1.squares (offset mv.dst (-1) 0) .pawn p.other ||
        isPiece b1.squares (offset mv.dst 1 0) .pawn p.other) = true := by
    rw [bb_ne_zero_iff, Bool.or_eq_true, isPiece_iff, isPiece_iff]
    constructor
    · rintro ⟨x, hx⟩
      rw [mem_and, mem_or, Bool.and_eq_true, Bool.or_eq_true, mem_west_bb, mem_east_bb] at hx
      have hp := (mem_kindOf b1 hc1 .pawn p.other x).1 hx.2
      rcases hx.1 with e | e
      · exact Or.inl ⟨x, e, hp⟩
      · exact Or.inr ⟨x, e, hp⟩
    · rintro (⟨x, e, hp⟩ | ⟨x, e, hp⟩)
      · exact ⟨x, by
          rw [mem_and, mem_or, Bool.and_eq_true, Bool.or_eq_true, mem_west_bb, mem_east_bb]
          exact ⟨Or.inl e, (mem_kindOf b1 hc1 .pawn p.other x).2 hp⟩⟩
      · exact ⟨x, by
          rw [mem_and, mem_or, Bool.and_eq_true, Bool.or_eq_true, mem_west_bb, mem_east_bb]
          exact ⟨Or.inr e, (mem_kindOf b1 hc1 .pawn p.other x).2 hp⟩⟩
  have hfw : mv.src.forward p = offset mv.src 0 (fwd p) :=
    ((Geo.offset_forward mv.src p (Geo.mem_players p)).1).symm
  by_cases hk : moved.kind = .pawn
  · have hany : (some moved).any (fun pc => pc.kind == .pawn) = true := by simp [hk]
    by_cases h1 : mem (pawnBackRank p) mv.src = true ∧ mem (pawnDoublePushRank p) mv.dst = true
    · have hcondR : (decide (mv.src.rank = startRank p) && decide ((mv.dst.rank : Int) = mv.src.rank + 2 * fwd p)) = true := by
        rw [← hranks, h1.1, h1.2]; rfl
      rw [if_pos ⟨hk, h1.1, h1.2⟩] at h
      rw [hany, Bool.true_and, hcondR, if_pos rfl]
      by_cases ha : ((BB.west (bb mv.dst) ||| BB.east (bb mv.dst)) &&& b1.pawnsOf p.other) ≠ 0#64
      · rw [if_pos ha] at h
        rw [if_pos (hadj.1 ha), ← hfw]
        cases hf : mv.src.forward p with
        | none => rw [hf] at h; cases h
        | some t => rw [hf] at h; exact (Option.some.inj h).symm
      · rw [if_neg ha] at h
        have : ¬ (isPiece b1.squares (offset mv.dst (-1) 0) .pawn p.other ||
            isPiece b1.squares (offset mv.dst 1 0) .pawn p.other) = true := fun e => ha (hadj.2 e)
        rw [if_neg this]
        exact (Option.some.inj h).symm
    · have hcondR : (decide (mv.src.rank = startRank p) && decide ((mv.dst.rank : Int) = mv.src.rank + 2 * fwd p)) = false := by
        rw [← hranks]
        cases ha : mem (pawnBackRank p) mv.src <;> cases hb : mem (pawnDoublePushRank p) mv.dst <;> simp_all
      rw [if_neg (fun e => h1 ⟨e.2.1, e.2.2⟩)] at h
      rw [hany, Bool.true_and, hcondR]
      simp only [Bool.false_eq_true, if_false]
      exact (Option.some.inj h).symm
  · rw [if_neg (fun e => hk e.1)] at h
    have hany : (some moved).any (fun pc => pc.kind == .pawn) = false := by simp [hk]
    rw [hany]
    simp only [Bool.false_and, Bool.false_eq_true, if_false]
    exact (Option.some.inj h).symm

end Tcheran

namespace Tcheran
open Board Game Rules

theorem applyBoard_noncastle (b : RBoard) (p : Player) (m : Move) (X : Piece)
    (hsrc : at' b m.src = some X) (hnc : m.isCastling = false) (x : Sq) :
    at' (applyBoard b p m) x =
      if m.isEnPassant = true ∧ offset m.dst 0 (-(fwd p)) = some x then none
      else if x = m.dst then some (Game.placedPiece m p X)
      else if x = m.src then none else at' b x := by
  unfold applyBoard Game.placedPiece
  rw [hsrc]
  simp only [hnc, Bool.false_eq_true, if_false]
  cases hpr : m.promotion <;> simp only
  all_goals
    by_cases he : m.isEnPassant = true
    · rw [if_pos he]
      cases ho : offset m.dst 0 (-(fwd p)) with
      | none =>
        simp only [he, true_and, reduceCtorEq, if_false]
        rw [at_setSq, at_setSq]
      | some v =>
        simp only [he, true_and, Option.some.injEq]
        rw [at_setSq, at_setSq, at_setSq]
        by_cases hx : x = v
        · subst hx; simp
        · have : ¬ v = x := fun e => hx e.symm
          simp [hx, this]
    · rw [if_neg he]
      have he' : m.isEnPassant = false := by simpa using he
      simp only [he', Bool.false_eq_true, false_and, if_false]
      rw [at_setSq, at_setSq]
/-- **make_refines**: whenever `make_move` answers for a move whose mover belongs to the side to move
(and, for castling, whose rook stands on its home square), the resulting position is the one
`Rules.apply` prescribes — placement, side to move, castling rights, e.p. target, both counters -/
theorem make_refines (c : Cfg) (g g' : Game) (mv : Move) (hc : Consistent g.board)
    (hr : makeMove c g mv = some g')
    (hown : ∀ M, g.board.pieceAt mv.src = some M → M.player = g.player)
    (hcastle : mv.isCastling = true →
      (∀ M, g.board.pieceAt mv.src = some M → M.kind = .king) ∧
      ∃ rf rt, castleSquares g.player mv.dst = some (rf, rt) ∧ g.board.pieceAt rf = some ⟨.rook, g.player⟩ ∧
        rf ≠ mv.src ∧ rf ≠ mv.dst) :
    ofGame g' = Rules.apply (ofGame g) mv := by
  obtain ⟨moved, cap, hmoved, hcap, hsd, hpl, hplies, _, hplain, hcas⟩ := makeMove_mailbox c g g' mv hr
  have hMp := hown moved hmoved
  -- the stages, for the scalar fields
  unfold makeMove at hr
  simp only [bind, Option.bind_eq_some_iff] at hr
  obtain ⟨⟨g1, moved', cap'⟩, h1, newEp, h2, g3, h3, h4⟩ := hr
  simp only [Option.some.injEq] at h4
  have sp := mmPieces_spec c g mv g1 moved' cap' h1
  have em : moved' = moved := by
    have := sp.moved_eq
    rw [hmoved] at this
    exact (Option.some.inj this).symm
  have ec : cap' = cap := by rw [sp.cap_eq, hcap]
  subst em; subst ec
  obtain ⟨c1, c2, c3, c4, c5⟩ := mmCastle_fields c (mmSetEp c g1 newEp) g3 mv h3
  have hfin_rights : g'.rights = rightsAfter' g.rights g.player mv moved' cap' := by
    rw [← h4]
    show (mmRights c g3 mv moved' cap').rights = _
    rw [mmRights_rights, c2, c1]
    show rightsAfter' g1.rights g1.player mv moved' cap' = _
    rw [sp.rights, sp.player]
  have hfin_ep : g'.ep = newEp := by
    rw [← h4]
    show (mmRights c g3 mv moved' cap').ep = _
    rw [(sameCore_mmRights c g3 mv moved' cap').2.2.2.2.1]
    -- SameCore relates mmFinish ∘ mmRights to the argument; go through the fields directly
    exact c3
  have hfin_half : g'.halfmove = (if cap'.isSome ∨ moved'.kind = .pawn then 0 else g.halfmove + 1) := by
    rw [← h4]
    show (if cap'.isSome ∨ moved'.kind = .pawn then 0 else (mmRights c g3 mv moved' cap').halfmove + 1) = _
    have : (mmRights c g3 mv moved' cap').halfmove = g.halfmove := by
      have e1 : (mmRights c g3 mv moved' cap').halfmove = g3.halfmove := by
        unfold mmRights
        simp only
        repeat' split
        all_goals simp only [(tryRemoveRights_fields c _ _ _).2.2.2.2.1]
      rw [e1, c4]
      show g1.halfmove = _
      exact sp.halfmove
    rw [this]
  apply pos_ext
  · -- placement
    apply squares_eq_of_at
    intro x
    show g'.board.pieceAt x = at' (applyBoard g.board.squares g.player mv) x
    by_cases hcs : mv.isCastling = true
    · obtain ⟨hking, rf, rt, hsq, hrook, hne1, hne2⟩ := hcastle hcs
      obtain ⟨rook, hrk, hat⟩ := hcas hcs rf rt hsq
      rw [if_neg hne2, if_neg hne1, hrook] at hrk
      have erook := (Option.some.inj hrk).symm
      subst erook
      have hmk : moved' = ⟨.king, g.player⟩ := by
        obtain ⟨kk, pl⟩ := moved'
        have a := hking _ hmoved
        simp only at a hMp
        subst a; subst hMp; rfl
      have hmv : mv = Move.castles mv.src mv.dst := by
        obtain ⟨s, d, f⟩ := mv
        have : f = .castle := by simpa [Move.isCastling] using hcs
        subst this; rfl
      rw [hat x, hmv, applyBoard_castle g.board.squares g.player mv.src mv.dst rf rt
        (by rw [← hmk]; exact hmoved) hsq x, hmk]
      rfl
    · have hnc : mv.isCastling = false := by simpa using hcs
      rw [hplain hnc x, applyBoard_noncastle g.board.squares g.player mv moved' hmoved hnc x,
        Geo.backward_offset mv.dst g.player (Geo.mem_players' _)]
      rfl
  · show g'.player = g.player.other
    exact hpl
  · -- castling rights
    show g'.rights = (Rules.apply (ofGame g) mv).rights
    rw [hfin_rights, ← rules_rights g.rights g.player mv moved' cap' hMp]
    have hsrc' : at' (ofGame g).board mv.src = some moved' := hmoved
    have hdst' : at' (ofGame g).board mv.dst = cap' := hcap.symm
    have hp' : (ofGame g).player = g.player := rfl
    have hr' : (ofGame g).rights = g.rights := rfl
    simp only [Rules.apply, hsrc', hdst', hp', hr']
  · -- en-passant target
    show g'.ep = (Rules.apply (ofGame g) mv).ep
    rw [hfin_ep]
    unfold mmNewEp at h2
    simp only at h2
    rw [sp.player] at h2
    have hne := newEp_rules g1.board (sp.cons hc) g.player mv moved' newEp h2
    rw [hne]
    have hsrc' : at' (ofGame g).board mv.src = some moved' := hmoved
    have hp' : (ofGame g).player = g.player := rfl
    have hb' : (ofGame g).board = g.board.squares := rfl
    simp only [Rules.apply, hsrc', hp', hb']
    have hsrc2 : at' g.board.squares mv.src = some moved' := hmoved
    simp only [hsrc2]
    -- the rules look at the final placement; for a pawn move it is the placement after `mmPieces`
    by_cases hk : moved'.kind = .pawn
    · have hnc : mv.isCastling = false := by
        cases hcs : mv.isCastling with
        | false => rfl
        | true =>
          have := (hcastle hcs).1 _ hmoved
          rw [this] at hk; cases hk
      have hb : applyBoard g.board.squares g.player mv = g1.board.squares := by
        apply squares_eq_of_at
        intro x
        rw [applyBoard_noncastle g.board.squares g.player mv moved' hmoved hnc x]
        show _ = g1.board.pieceAt x
        rw [sp.mailbox x, Geo.backward_offset mv.dst g.player (Geo.mem_players' _)]
        rfl
      rw [hb]
    · have hany : (some moved').any (fun pc => pc.kind == .pawn) = false := by simp [hk]
      rw [hany]
      simp
  · show g'.halfmove = (Rules.apply (ofGame g) mv).halfmove
    rw [hfin_half]
    have hsrc' : at' (ofGame g).board mv.src = some moved' := hmoved
    have hdst' : at' (ofGame g).board mv.dst = cap' := hcap.symm
    have hh' : (ofGame g).halfmove = g.halfmove := rfl
    simp only [Rules.apply, hsrc', hdst', hh']
    by_cases h5 : cap'.isSome = true
    · simp [h5]
    · by_cases h6 : moved'.kind = .pawn
      · simp [h6]
      · simp [h5, h6]
  · show g'.plies = g.plies + 1
    exact hplies

end Tcheran
