import TcheranVerif.Model.Eval
import TcheranVerif.Model.Draw
import TcheranVerif.Model.Fen
/-!
# Line-protocol helpers for `tvdriver` (not part of the model: text in, text out)
-/

namespace Tcheran
namespace Driver

def boolDigit (b : Bool) : String := if b then "1" else "0"

def mailboxText (sq : Vector (Option Piece) 64) : String :=
  String.ofList ((List.finRange 64).map fun (s : Sq) =>
    match sq[s.val] with
    | some p => Fen.charOfPiece p
    | none => '.')

def rightsText (r : Rights) : String := String.ofList (Fen.formatCastling r)

def epText : Option Sq → String
  | some s => s.notation
  | none => "-"

def playerText : Player → String
  | .white => "w"
  | .black => "b"

structure Position where
  game : Game
  pos : Rules.Pos

def toRulesPos (g : Game) : Rules.Pos := Rules.ofGame g

def readPosition (text : String) : Option Position :=
  match Fen.parse theCfg text with
  | .ok g => some { game := g, pos := toRulesPos g }
  | _ => none

def posText (p : Rules.Pos) : String :=
  Fen.writeFields p.board p.player p.rights p.ep p.halfmove p.plies

/-- `e2e4:0` / `e7e8q:14` -/
def parseMove (t : String) : Option Move :=
  match t.splitOn ":" with
  | [mv, code] =>
    match mv.toList, code.toNat? with
    | f1 :: r1 :: f2 :: r2 :: _, some c => do
      let src ← Sq.ofNotation? f1 r1
      let dst ← Sq.ofNotation? f2 r2
      let flag ← MoveFlag.ofCode? c
      pure ⟨src, dst, flag⟩
    | _, _ => none
  | _ => none

def insertSorted (x : String) : List String → List String
  | [] => [x]
  | y :: ys => if x < y then x :: y :: ys else y :: insertSorted x ys

def sortStrings (l : List String) : List String := l.foldl (fun acc x => insertSorted x acc) []

def sortedMoves (ms : List Move) : String := " ".intercalate (sortStrings (ms.map Move.text))

def optBool : Option Bool → String
  | some b => boolDigit b
  | none => "panic"

/-- mirror of the harness's `dump_game` -/
def dumpGame (g : Game) : String :=
  let b := g.board
  let inc := Game.incInit theCfg b
  s!"B={mailboxText b.squares} P={playerText g.player} R={rightsText g.rights} E={epText g.ep} H={g.halfmove} L={g.plies} K={hex b.pawns},{hex b.knights},{hex b.bishops},{hex b.rooks},{hex b.queens},{hex b.kings} C={hex b.white},{hex b.black} Z={hex g.zobrist} ZR={hex (Game.hash theCfg b g.player g.rights g.ep)} PH={g.inc.phase} MG={Eval.midgame g.inc.pst} EG={Eval.endgame g.inc.pst} PHR={inc.phase} MGR={Eval.midgame inc.pst} EGR={Eval.endgame inc.pst} REP={boolDigit g.isRepeated} F50={optBool g.isFifty} INS={boolDigit g.isInsufficient} HL={g.history.length}"

/-- what the rules say about the same state; `rep = none` when the stream contains a null move
    (search-internal; C11 quantifies over game histories) -/
def dumpSpec (p : Rules.Pos) (rep : Option Bool) : String :=
  let ins := match Rules.insufficientDemand p with
    | some b => boolDigit b
    | none => "*"
  let repT := match rep with
    | some b => boolDigit b
    | none => "*"
  s!"B={mailboxText p.board} P={playerText p.player} R={rightsText p.rights} E={epText p.ep} H={p.halfmove} L={p.plies} REP={repT} F50={boolDigit (Rules.isFifty p)} INS={ins}"

end Driver
end Tcheran
