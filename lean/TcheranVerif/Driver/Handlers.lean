import TcheranVerif.Model.PositionCmd
import TcheranVerif.Driver.Gens
import TcheranVerif.Model.TT
import TcheranVerif.Model.See
import TcheranVerif.Model.SeeSeq
import TcheranVerif.Model.San
import TcheranVerif.Model.Time
import TcheranVerif.Model.Search
import TcheranVerif.Model.UciCtl
import TcheranVerif.Model.UciMove
import TcheranVerif.Model.Mirror
/-!
# Request handlers for the engine-level properties (mirror of `harness/src/cmds2.rs`)
Each returns `(model answer, specification answer)`.
-/

namespace Tcheran
namespace Driver

def bad : String × String := ("bad-request", "-")

def optMove (t : String) : Option (Option Move) :=
  if t == "-" then some none else (parseMove t).map some

def intOf? (t : String) : Option Int :=
  if t.startsWith "-" then (t.drop 1).toNat?.map (fun n => -(n : Int)) else t.toNat?.map (fun n => (n : Int))

/-! ### C19 -/

def boundChar : TT.Bound → String
  | .exact => "E" | .upper => "U" | .lower => "L"

def bbOfHex' (t : String) : Option BB :=
  t.toList.foldl (fun acc c => do
    let a ← acc
    let d ← (if '0' ≤ c ∧ c ≤ '9' then some (c.toNat - 48)
             else if 'a' ≤ c ∧ c ≤ 'f' then some (c.toNat - 87) else none)
    pure (a * 16 + d)) (some 0) |>.map (BitVec.ofNat 64)

/-- abstract specification of the table: the last admitted insert per slot (an association list
    keyed by slot), maintained alongside the model to answer `get` from first principles -/
structure TTSpec where
  n : Nat
  admitted : List (Nat × BB × TT.Data)   -- most recent first
  generation : Nat

def ttHandle (mbText opsText : String) : String × String :=
  match mbText.toNat? with
  | none => bad
  | some mb =>
    let ops := (opsText.splitOn " ").filter (· ≠ "")
    let step (st : TT.Table × List String) (op : String) : TT.Table × List String :=
      let (t, out) := st
      let p := op.splitOn ":"
      let (t, res) : TT.Table × String :=
        match p with
        | ["i", key, b, ev, depth, age, mvA, mvB] =>
          match bbOfHex' key, intOf? ev, depth.toNat? with
          | some k, some e, some d =>
            let bound := if b == "E" then TT.Bound.exact else if b == "U" then .upper else .lower
            let age := if age == "g" then t.generation else age.toNat!
            let best := if mvA == "-" then none else parseMove (mvA ++ ":" ++ mvB)
            (t.insert k { bound, eval := e, depth := d, age, best }, "ins")
          | _, _, _ => (t, "bad")
        | ["g", key] =>
          match bbOfHex' key with
          | some k =>
            (t, match t.get k with
              | some d => s!"hit:{boundChar d.bound}:{d.eval}:{d.depth}:{d.age}:{match d.best with | some m => m.text | none => "-"}"
              | none => "miss")
          | none => (t, "bad")
        | ["f", key, count] =>
          match bbOfHex' key, count.toNat? with
          | some k, some n =>
            let t := (List.range n).foldl (fun (t : TT.Table) i =>
              t.insert (k + BitVec.ofNat 64 i) { bound := .upper, eval := 7, depth := 2, age := t.generation, best := none }) t
            (t, "fill")
          | _, _ => (t, "bad")
        | ["n"] => (t.newGeneration, "gen")
        | ["r"] => (t.reset, "reset")
        | ["z", mb] => (t.resize mb.toNat!, "resize")
        | _ => (t, "bad")
      (t, out ++ [s!"{res}[occ={t.occupied},gen={t.generation},hf={t.hashfullExact}]"])
    let (_, out) := ops.foldl step (TT.new mb, [])
    (" ".intercalate out, "-")

/-! ### C14 -/

def optMs (t : String) : Option (Option Nat) :=
  if t == "-" then some none else t.toNat?.map (fun ms => some (ms * 1000000))

def limitsHandle (f : List String) : String × String :=
  match f with
  | [side, wt, bt, wi, bi, mtg, mt, oh] =>
    match optMs wt, optMs bt, optMs wi, optMs bi, optMs mt, oh.toNat? with
    | some wt, some bt, some wi, some bi, some mt, some oh =>
      let mtg := if mtg == "-" then none else mtg.toNat?
      let tc : Time.Control :=
        if wt.isSome || bt.isSome then .clocks ⟨wt, bt, wi, bi, mtg⟩
        else match mt with
          | some t => .exact t
          | none => .infinite
      match Time.limits (side == "w") tc oh with
      | some (s, h) => (s!"soft={s} hard={h}", "-")
      | none => ("panic", "-")
    | _, _, _, _, _, _ => bad
  | _ => bad

/-! ### C16 -/

def evalText (g : Game) : String :=
  match Eval.eval g with
  | some v => toString v
  | none => "panic"

def evalpairHandle (a b : String) : String × String :=
  match readPosition a, readPosition b with
  | some pa, some pb =>
    let absa := match Eval.absoluteEval pa.game with | some v => toString v | none => "panic"
    -- the second position of the request must be the transformation the theorem `eval_mirror` is about
    let m := Game.mirror theCfg pa.game
    let same := m.board == pb.game.board && m.player == pb.game.player && m.rights == pb.game.rights &&
      m.ep == pb.game.ep
    (s!"a={evalText pa.game} b={evalText pb.game} absa={absa}", if same then "mirror=ok" else "mirror=DIFF")
  | _, _ => bad

/-- moves played on the engine model (accumulators carried), then the evaluation of the carried game and of
    the same position set up from scratch -/
def evalplayHandle (fen ops : String) : String × String :=
  match readPosition fen with
  | none => bad
  | some p =>
    let moves := (ops.splitOn " ").filter (· != "")
    let rec go (g : Game) : List String → Option Game
      | [] => some g
      | t :: rest =>
        match parseMove t with
        | none => none
        | some m => match Game.makeMove theCfg g m with
          | none => none
          | some g' => go g' rest
    match go p.game moves with
    | none => ("panic", "-")
    | some g =>
      let fresh := Game.fromState theCfg g.board g.player g.rights g.ep g.halfmove g.plies
      (s!"ev={evalText g} evf={evalText fresh}", "-")

def blendHandle (mg eg ph : String) : String × String :=
  match intOf? mg, intOf? eg, intOf? ph with
  | some mg, some eg, some ph =>
    let v := Eval.pack mg eg
    let r := match Eval.forPhase v ph with
      | some x => toString x
      | none => "panic"
    (s!"{r} mg={Eval.midgame v} eg={Eval.endgame v}", "-")
  | _, _, _ => bad

/-! ### C20 -/

def seeHandle (a b : String) : String × String :=
  match readPosition a, readPosition b with
  | some pa, some pb =>
    match generateLegal pa.game with
    | none => ("panic", "-")
    | some legal =>
      let caps := legal.filter fun m => m.isCapture && !m.isEnPassant
      let items := caps.map fun m =>
        let v := match See.see pa.game m 0 with | some b => boolDigit b | none => "panic"
        let vm := match See.see pb.game (mirrorMove m) 0 with | some b => boolDigit b | none => "panic"
        (m.text, s!"{m.text}={v}/{vm}")
      let sorted := sortStrings (items.map (·.2))
      -- specification: per capture `move=swapVerdict:tie:undefended:victimGeAttacker`
      let specItems := (Rules.legalMoves pa.pos).filter (fun m => m.isCapture && !m.isEnPassant) |>.map fun m =>
        match See.swapValue pa.pos m with
        | some (v, tie) =>
          let moved := (Rules.at' pa.pos.board m.src).map (·.kind)
          let victim := (Rules.at' pa.pos.board m.dst).map (·.kind)
          let after := Rules.setSq (Rules.setSq pa.pos.board m.src none) m.dst
            (some ⟨(match m.promotion with | some pr => pr.piece | none => moved.getD .pawn), pa.pos.player⟩)
          let undefended := (See.attackersOn after pa.pos.player.other m.dst).isEmpty
          let vga := match moved, victim with
            | some a, some v => See.pieceValue v ≥ See.pieceValue a && m.promotion.isNone
            | _, _ => false
          s!"{m.text}={boolDigit (v ≥ 0)}:{boolDigit tie}:{boolDigit undefended}:{boolDigit vga}"
        | none => s!"{m.text}=?"
      -- the second position must be the transformation the theorem `see_mirror` is about
      let mg := Game.mirror theCfg pa.game
      let same := mg.board == pb.game.board && mg.player == pb.game.player && mg.ep == pb.game.ep
      let tag := if same then "@mirror=ok" else "@mirror=DIFF"
      -- the one lemma `see_swaplist` / `spec_is_swaplist` leave open: on tie-free captures the model's bitboard
      -- sequence of capturers is the sequence the mailbox computation finds
      let seqBad := (Rules.legalMoves pa.pos).filter (fun m => m.isCapture && !m.isEnPassant) |>.filterMap fun m =>
        match See.swapValue pa.pos m, pa.game.board.pieceAt m.src, See.occAfter pa.game m with
        | some (_, false), some moved, some occ =>
          let placed : PieceKind := match m.promotion with | some pr => pr.piece | none => moved.kind
          let after := Rules.setSq (Rules.setSq pa.pos.board m.src none) m.dst (some ⟨placed, pa.pos.player⟩)
          if See.capturers pa.game m moved occ == See.seq m.dst 40 after pa.pos.player.other then none else some m.text
        | _, _, _ => none
      let tag2 := match seqBad with | [] => "@seq=ok" | m :: _ => s!"@seq={m}"
      -- the statement of `see_swaplist`, executed on every capture of the request (its hypotheses hold for the legal
      -- captures of a legal position): a witness that the theorem speaks about these inputs
      let thmBad := caps.filterMap fun m =>
        match pa.game.board.pieceAt m.src, See.occAfter pa.game m with
        | some moved, some occ =>
          let expected := decide (0 ≤ See.gain pa.game m -
            See.swapAbs (See.capturers pa.game m moved occ) (See.pieceValue (See.placed moved m)))
          if See.see pa.game m 0 == some expected then none else some m.text
        | _, _ => some m.text
      let tag3 := match thmBad with | [] => "@thm=ok" | m :: _ => s!"@thm={m}"
      (" ".intercalate sorted, " ".intercalate (tag :: tag2 :: tag3 :: sortStrings specItems))
  | _, _ => bad

/-! ### C18 -/

def sanCtx (g : Game) (legal : List Move) : San.Ctx :=
  { player := g.player, legal,
    kindAt := fun s => (g.board.pieceAt s).map (·.kind),
    givesCheck := fun m =>
      match Game.makeMove theCfg g m with
      | some g' => (kingInCheck g'.board g'.player).getD false
      | none => false }

def sanHandle (fen : String) : String × String :=
  match readPosition fen with
  | none => bad
  | some p =>
    match generateLegal p.game with
    | none => ("panic", "-")
    | some legal =>
      let c := sanCtx p.game legal
      let items := legal.map fun m =>
        match San.format c m with
        | none => s!"{m.text}=panic=-"
        | some t =>
          let back := match San.parse c t with
            | .ok m' => m'.text
            | .err => "err"
            | .panic => "panic"
          s!"{m.text}={t}={back}"
      let spec := (Rules.legalMoves p.pos).map fun m => s!"{m.text}={San.spec p.pos m}"
      (" ".intercalate (sortStrings items), " ".intercalate (sortStrings spec))

/-! ### C10 -/

def pickerHandle (f : List String) : String × String :=
  match f with
  | [fen, prev, hash, k1, k2, counter, ply, hist, loud] =>
    match readPosition fen, optMove prev, optMove hash, optMove k1, optMove k2, optMove counter, ply.toNat? with
    | some p, some prev, some hash, some k1, some k2, some counter, some ply =>
      let g? : Option Game := match prev with
        | some pm => Game.makeMove theCfg p.game pm
        | none => some p.game
      match g? with
      | none => ("panic", "-")
      | some g =>
        let history := ((hist.splitOn " ").filter (· ≠ "")).foldl (fun h tok =>
          match tok.splitOn ":" with
          | [a, b, d] =>
            match a.toList, b.toList, d.toNat? with
            | [f1, r1], [f2, r2], some d =>
              match Sq.ofNotation? f1 r1, Sq.ofNotation? f2 r2 with
              | some s, some t => Search.historyAdd h g.player ⟨s, t, .quiet⟩ d
              | _, _ => h
            | _, _, _ => h
          | _ => h) Search.newHistory
        let killers := Search.newKillers
        let killers := match k2 with
          | some k => (Search.killersPush killers ply k).getD killers
          | none => killers
        let killers := match k1 with
          | some k => (Search.killersPush killers ply k).getD killers
          | none => killers
        let counterTbl := match counter, Search.lastMove g with
          | some cm, some pm => Search.newCounter.setIfInBounds (Search.tblIdx g.player pm.src pm.dst) (some cm)
          | _, _ => Search.newCounter
        let c : Search.Ctx := { tt := TT.new 0, history, killers, counter := counterTbl }
        match Search.nodeMoves g with
        | none => ("panic", "-")
        | some nm =>
          let env := Search.pickerEnv g nm c ply
          let st := if loud == "1" then Picker.newLoud else Picker.new hash
          -- fuel above the measure of `Props.C10.picker_perm` (10 * bound env): the loop ends on `None`
          let stream := Picker.drain env (10 * (env.captures.length + env.quiets.length + 1) + 1) st
          -- specification: the legal moves (all of them, or at least captures + queen promotions)
          let rp := toRulesPos g
          let legal := Rules.legalMoves rp
          let must := if loud == "1" then
              legal.filter fun m => m.isCapture || m.flag == .promoQ
            else legal
          (" ".intercalate (stream.map Move.text),
           s!"legal=[{sortedMoves legal}] must=[{sortedMoves must}]")
    | _, _, _, _, _, _, _ => bad
  | _ => bad

/-! ### C04 / C08 / C09 / C12 -/

def scoreText (v : Int) : String :=
  match Search.isMateInMoves v with
  | some n => s!"mate{n}"
  | none => s!"cp{v}"

def infoText (i : Search.Info) : String :=
  s!"d={i.depth},sd={i.seldepth},s={scoreText i.score},n={i.nodes},hf={i.hashfullExact},pv={"/".intercalate (i.pv.map Move.text)}"

/-- what the rules say about one reported line: legality, length vs mate announcement, mate at the end -/
def lineVerdict (root : Rules.Pos) (i : Search.Info) : String :=
  let rec walk (p : Rules.Pos) : List Move → Option Rules.Pos
    | [] => some p
    | m :: ms => if (Rules.legalMoves p).contains m then walk (Rules.apply p m) ms else none
  match walk root i.pv with
  | none => "illegal"
  | some endPos =>
    match Search.isMateInMoves i.score with
    | none => "ok"
    | some n =>
      let need := if n > 0 then 2 * n.toNat - 1 else 2 * (-n).toNat
      if i.pv.length ≠ need then s!"mate-length({i.pv.length}vs{need})"
      else if !(Rules.isCheckmate endPos) then "mate-not-mate"
      else "ok"

/-- `verify <fen> <played> <best> <score,pv;score,pv;…>`: the rules' verdict on what an
    implementation reported (independent of the search model) -/
def verifyHandle (fen played best infos : String) : String × String :=
  match readPosition fen with
  | none => bad
  | some p =>
    let ms := ((played.splitOn " ").filter (· ≠ "")).map parseMove
    if ms.any Option.isNone then bad else
    let root := ms.foldl (fun pos m => match m with | some m => Rules.apply pos m | none => pos) p.pos
    let legal := Rules.legalMoves root
    let bestOk := match parseMove best with
      | some m => legal.contains m
      | none => false
    let verdicts := ((infos.splitOn ";").filter (· ≠ "")).map fun it =>
      match it.splitOn "," with
      | [sc, pv] =>
        let moves := ((pv.splitOn "/").filter (· ≠ "")).map parseMove
        if moves.any Option.isNone then "unparseable" else
        let moves := moves.filterMap id
        let score : Option Int :=
          if sc.startsWith "cp" then intOf? (sc.drop 2).toString
          else if sc.startsWith "mate" then
            -- reconstruct a representative raw score from the announced distance
            (intOf? (sc.drop 4).toString).map fun n => if n > 0 then Gen.mate - (2 * n - 1) else -Gen.mate + 2 * (-n)
          else none
        match score with
        | none => "unparseable"
        | some v => if moves.isEmpty then "empty" else lineVerdict root ⟨0, 0, v, 0, 0, moves⟩
      | _ => "unparseable"
    ("-", s!"bestlegal={boolDigit bestOk} nlegal={legal.length} lines=[{" ".intercalate verdicts}]")

structure Job where
  fen : String
  moves : List String
  depth : Option Nat
  stopAt : Nat
  every : Bool

def parseJob (t : String) : Option Job :=
  match t.splitOn "|" with
  | [fen, mvs, d, s, e] =>
    some { fen, moves := (mvs.splitOn " ").filter (· ≠ ""), depth := if d == "-" then none else d.toNat?,
           stopAt := s.toNat!, every := e == "1" }
  | _ => none

def searchHandle (mbText jobsText : String) : String × String :=
  match mbText.toNat? with
  | none => bad
  | some mb =>
    let jobs := (jobsText.splitOn ";").filter (· ≠ "")
    let rec go (jobs : List String) (tt : TT.Table) (hist : Array Int) (accM accS : List String) :
        List String × List String :=
      match jobs with
      | [] => (accM.reverse, accS.reverse)
      | "N" :: rest => go rest tt.reset Search.newHistory ("reset" :: accM) ("-" :: accS)
      | j :: rest =>
        if j.startsWith "Z" then
          go rest (tt.resize (j.drop 1).toNat!) hist ("resize" :: accM) ("-" :: accS)
        else
        match parseJob j with
        | none => (("bad-job" :: accM).reverse, accS.reverse)
        | some job =>
          match readPosition job.fen with
          | none => (("bad-fen" :: accM).reverse, accS.reverse)
          | some p =>
            let g? := job.moves.foldl (fun g t => g.bind fun g => (parseMove t).bind (Game.makeMove theCfg g)) (some p.game)
            match g? with
            | none => (("bad-moves" :: accM).reverse, accS.reverse)
            | some g =>
              let out := Search.search 100000 g tt hist job.depth job.stopAt job.every
              let root := toRulesPos g
              let infos := " ".intercalate (out.infos.map infoText)
              let verdicts := " ".intercalate (out.infos.map (lineVerdict root))
              match out.best with
              | some m =>
                let legal := (Rules.legalMoves root).contains m
                go rest out.ctx.tt out.ctx.history
                  (s!"best={m.text} polls={out.ctx.polls} untouched=1 gen={out.ctx.tt.generation} occ={out.ctx.tt.occupied} infos=[{infos}]" :: accM)
                  (s!"bestlegal={boolDigit legal} lines=[{verdicts}]" :: accS)
              | none =>
                ((s!"panic polls={out.ctx.polls} infos=[{infos}]" :: accM).reverse,
                 (s!"model-panic:{out.panic.getD ""}" :: accS).reverse)
    let (m, s) := go jobs (TT.new mb) Search.newHistory [] []
    (" ; ".intercalate m, " ; ".intercalate s)

/-! ### C05 -/

def ctlCmd? : String → Option UciCtl.Cmd
  | "isready" => some .isready | "ucinewgame" => some .ucinewgame | "position" => some .position
  | "setoption" => some .setoption | "gofinite" => some .goFinite | "goinfinite" => some .goInfinite
  | "stop" => some .stop | "quit" => some .quit | _ => none

def ctlHandle (cmdsText : String) : String × String :=
  let toks := (cmdsText.splitOn " ").filter (· ≠ "")
  let cmds := toks.filterMap ctlCmd?
  if cmds.length ≠ toks.length then bad else
  let (stuck, n) := UciCtl.explore cmds
  let count (c : UciCtl.Cmd) := (cmds.filter (· == c)).length
  (s!"stuck={boolDigit stuck} states={n} readyok={count .isready} bestmove={count .goFinite + count .goInfinite} exits={boolDigit (cmds.contains .quit)}", "-")

/-! ### C17 -/

def ucimovesHandle (text : String) : String × String :=
  match UciMove.parseMoves 600 text.toList with
  | some (ms, rest) =>
    (s!"ok [{" ".intercalate (ms.map fun m => String.ofList (UciMove.text m))}] rest=[{(String.ofList rest).replace "\t" "<TAB>"}]", "-")
  | none => ("err", "-")

def gameHandle (fen movesText : String) : String × String :=
  match readPosition fen with
  | none => bad
  | some p =>
    let ms := ((movesText.splitOn " ").filter (· ≠ "")).map parseMove
    if ms.any Option.isNone then bad else
    let ms := ms.filterMap id
    let final := ms.foldl (fun pos m => Rules.apply pos m) p.pos
    let spec := s!"fen={posText final}|moves={" ".intercalate (sortStrings ((Rules.legalMoves final).map Move.uci))}"
    match UciMove.positionCmd p.game (ms.map UciMove.keyOf) with
    | none => ("panic", spec)
    | some g =>
      let legal := (generateLegal g).getD []
      (s!"fen={Fen.write g}|moves={" ".intercalate (sortStrings (legal.map Move.uci))}", spec)

end Driver
end Tcheran
