import TcheranVerif.Driver.Proto
/-!
# Input generators (correspondence and failing-input search only — never a proof step)

Every random choice derives from one xorshift state seeded by `VERIF_SEED`. Moves in playouts are
chosen by the `Rules` specification, so a broken engine generator cannot hide its own omissions.
-/

namespace Tcheran
namespace Driver

structure Rng where
  s : UInt64

def Rng.ofSeed (seed : Nat) : Rng :=
  ⟨(UInt64.ofNat (seed * 2654435761 + 0x9E3779B97F4A7C15)) ||| 1⟩

def Rng.next (r : Rng) : Rng × UInt64 :=
  let x := r.s
  let x := x ^^^ (x >>> 12)
  let x := x ^^^ (x <<< 25)
  let x := x ^^^ (x >>> 27)
  (⟨x⟩, x * 0x2545F4914F6CDD1D)

def Rng.below (r : Rng) (n : Nat) : Rng × Nat :=
  let (r, v) := r.next
  (r, if n = 0 then 0 else (v >>> 11).toNat % n)

def Rng.pick {α} [Inhabited α] (r : Rng) (l : List α) : Rng × α :=
  let (r, i) := r.below l.length
  (r, l.getD i default)

def startFen : String := "rnbqkbnr/pppppppp/8/8/8/8/PPPPPPPP/RNBQKBNR w KQkq - 0 1"

def emptyGame : Game := Game.fromState theCfg Board.empty .white Rights.none none 0 0

def startPosition : Position :=
  match readPosition startFen with
  | some p => p
  | none => ⟨emptyGame, toRulesPos emptyGame⟩

instance : Inhabited Position := ⟨startPosition⟩
instance : Inhabited Rules.Pos := ⟨startPosition.pos⟩

/-- weight of a move when choosing the next playout move: tactical / special moves preferred -/
def moveWeight (m : Move) : Nat :=
  match m.flag with
  | .quiet => 2
  | .capture => 5
  | .castle => 12
  | .enPassant => 30
  | _ => 10

def pickWeighted (r : Rng) (ms : List Move) : Rng × Option Move :=
  let total := ms.foldl (fun a m => a + moveWeight m) 0
  if total = 0 then (r, none) else
  let (r, k) := r.below total
  let rec go : List Move → Nat → Option Move
    | [], _ => none
    | m :: rest, k => if k < moveWeight m then some m else go rest (k - moveWeight m)
  (r, go ms k)

/-- random playout by the rules; returns the positions visited (start included) and the moves -/
def playout (r : Rng) (start : Rules.Pos) (len : Nat) : Rng × List Rules.Pos × List Move :=
  let rec go (fuel : Nat) (r : Rng) (p : Rules.Pos) (ps : List Rules.Pos) (ms : List Move) :
      Rng × List Rules.Pos × List Move :=
    match fuel with
    | 0 => (r, ps.reverse, ms.reverse)
    | fuel+1 =>
      let legal := Rules.legalMoves p
      match pickWeighted r legal with
      | (r, none) => (r, ps.reverse, ms.reverse)
      | (r, some m) =>
        let p' := Rules.apply p m
        go fuel r p' (p' :: ps) (m :: ms)
  go len r start [start] []

def kindOfIndex : Nat → PieceKind
  | 0 => .pawn | 1 => .pawn | 2 => .pawn | 3 => .knight | 4 => .bishop | 5 => .rook | 6 => .queen
  | 7 => .bishop | 8 => .rook | _ => .queen

/-- random placement: two kings plus `n` men, pawns kept off the back ranks and biased to the
    ranks where double pushes / en passant / promotion happen; rights set when king and rook are
    at home. Not necessarily legal — callers filter with `Rules.legalPos`. -/
def randomPlacement (r : Rng) (n : Nat) : Rng × Rules.Pos :=
  let empty : Rules.RBoard := Vector.replicate 64 none
  let (r, wk) := r.below 64
  let (r, bk) := r.below 64
  -- every fourth position keeps the kings at home so that castling rights can be granted
  let (r, home) := r.below 4
  let wk := if home = 0 then 4 else wk
  let bk := if home = 0 || home = 1 then 60 else bk
  let b := empty.set! wk (some ⟨.king, .white⟩)
  let b := if bk = wk then b else b.set! bk (some ⟨.king, .black⟩)
  let rec place (fuel : Nat) (r : Rng) (b : Rules.RBoard) : Rng × Rules.RBoard :=
    match fuel with
    | 0 => (r, b)
    | fuel+1 =>
      let (r, ki) := r.below 10
      let (r, col) := r.below 2
      let k := kindOfIndex ki
      let pl := if col = 0 then Player.white else Player.black
      let (r, sq) := r.below 64
      let (r, sq) :=
        if k == .pawn then
          let (r, rk) := r.below 8
          -- ranks 2..7 (index 1..6), biased to 2/4/5/7
          let rank := match rk with | 0 => 1 | 1 => 3 | 2 => 4 | 3 => 6 | 4 => 1 | 5 => 6 | 6 => 2 | _ => 5
          (r, rank * 8 + sq % 8)
        else if (k == .rook) && home = 0 then
          let (r, c) := r.below 3
          (r, if c = 0 then (if pl == .white then 0 else 56) else if c = 1 then (if pl == .white then 7 else 63) else sq)
        else (r, sq)
      if b[sq]!.isSome then place fuel r b
      else place fuel r (b.set! sq (some ⟨k, pl⟩))
  let (r, b) := place n r b
  let (r, side) := r.below 2
  let (r, rb) := r.below 16
  let has (s : Nat) (k : PieceKind) (pl : Player) : Bool := b[s]! == some ⟨k, pl⟩
  let wK := has 4 .king .white
  let bK := has 60 .king .black
  let rights : Rights :=
    ⟨⟨wK && has 7 .rook .white && rb % 2 == 0, wK && has 0 .rook .white && (rb / 2) % 2 == 0⟩,
     ⟨bK && has 63 .rook .black && (rb / 4) % 2 == 0, bK && has 56 .rook .black && (rb / 8) % 2 == 0⟩⟩
  let (r, hm) := r.below 120
  let (r, hmUse) := r.below 3
  (r, { board := b, player := if side = 0 then .white else .black, rights, ep := none,
        halfmove := if hmUse = 0 then hm else 0, plies := 40 + side })

/-- a random *legal* position: placement with 0–`maxMen` extra men, then 0–3 playout plies (which is
    how en-passant targets arise) -/
def randomLegal (r : Rng) (maxMen : Nat) : Rng × Rules.Pos :=
  let rec go (fuel : Nat) (r : Rng) : Rng × Rules.Pos :=
    match fuel with
    | 0 => (r, startPosition.pos)
    | fuel+1 =>
      let (r, n) := r.below (maxMen + 1)
      let (r, p) := randomPlacement r n
      if Rules.legalPos p then
        let (r, k) := r.below 4
        let (r, ps, _) := playout r p k
        (r, ps.getLast?.getD p)
      else go fuel r
  go 200 r


end Driver
end Tcheran
