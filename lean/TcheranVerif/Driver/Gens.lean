import TcheranVerif.Driver.GenPos
/-!
# Request generators for the targeted streams (templates, draw histories, FEN corruption)
-/

namespace Tcheran
namespace Driver

def swapColor (pc : Piece) : Piece := ⟨pc.kind, pc.player.other⟩

/-- colour swap + rank flip -/
def mirrorPos (p : Rules.Pos) : Rules.Pos :=
  { board := Vector.ofFn fun (i : Fin 64) => (p.board[(Sq.flip i).val]).map swapColor,
    player := p.player.other,
    rights := ⟨p.rights.black, p.rights.white⟩,
    ep := p.ep.map Sq.flip,
    halfmove := p.halfmove,
    plies := if p.plies % 2 == 0 then p.plies + 1 else p.plies - 1 }

def mirrorMove (m : Move) : Move := ⟨Sq.flip m.src, Sq.flip m.dst, m.flag⟩

def sqAt (file rank : Nat) : Nat := (rank % 8) * 8 + file % 8

def putIfEmpty (b : Rules.RBoard) (s : Nat) (pc : Piece) : Rules.RBoard :=
  if b[s % 64]!.isSome then b else b.set! (s % 64) (some pc)

/-- scatter `n` random extra men (no kings; pawns kept off ranks 1/8) -/
def scatter (r : Rng) (b : Rules.RBoard) (n : Nat) : Rng × Rules.RBoard :=
  let rec go (fuel : Nat) (r : Rng) (b : Rules.RBoard) : Rng × Rules.RBoard :=
    match fuel with
    | 0 => (r, b)
    | fuel+1 =>
      let (r, ki) := r.below 10
      let (r, col) := r.below 2
      let (r, sq) := r.below 64
      let k := kindOfIndex ki
      let sq := if k == .pawn then sqAt sq (1 + sq / 8 % 6) else sq
      go fuel r (putIfEmpty b sq ⟨k, if col = 0 then .white else .black⟩)
  go n r b

/-- en passant with sliders around: white to move, capturer on rank 5, victim beside it; king and
    one or two enemy sliders dropped preferentially on the lines through the three squares involved -/
def epTemplate (r : Rng) : Rng × Rules.Pos :=
  let empty : Rules.RBoard := Vector.replicate 64 none
  let (r, f) := r.below 8
  let (r, side) := r.below 2
  let cf := if f = 0 then 1 else if f = 7 then 6 else if side = 0 then f - 1 else f + 1
  -- one time in five there is no capturer: a FEN may name a target that no pawn can take
  let (r, lone) := r.below 5
  let b := if lone = 0 then empty else empty.set! (sqAt cf 4) (some ⟨.pawn, .white⟩)
  let b := b.set! (sqAt f 4) (some ⟨.pawn, .black⟩)
  -- second capturer sometimes
  let (r, two) := r.below 4
  let b := if two = 0 && lone ≠ 0 && f > 0 && f < 7 then putIfEmpty b (sqAt (2 * f - cf) 4) ⟨.pawn, .white⟩ else b
  -- lines of interest: rank 5; diagonals through capturer, target and victim
  let anchor (r : Rng) : Rng × Nat :=
    let (r, which) := r.below 5
    let (r, k) := r.below 8
    let (r, dir) := r.below 2
    match which with
    | 0 => (r, sqAt k 4)                                   -- the rank
    | 1 => (r, if dir = 0 then sqAt (cf + k) (4 + k) else sqAt (cf + 8 - k % 8) (4 + k))   -- diagonals of capturer
    | 2 => (r, if dir = 0 then sqAt (f + k) (5 + k) else sqAt (f + 8 - k % 8) (5 + k))     -- diagonals of target
    | 3 => (r, if dir = 0 then sqAt (f + k) (4 + k) else sqAt (f + 8 - k % 8) (4 + k))     -- diagonals of victim
    | _ => let (r, s) := r.below 64; (r, s)
  let (r, ks) := anchor r
  let b := putIfEmpty b ks ⟨.king, .white⟩
  let (r, s1) := anchor r
  let (r, k1) := r.below 3
  let slider (k : Nat) : PieceKind := if k = 0 then .bishop else if k = 1 then .rook else .queen
  let b := putIfEmpty b s1 ⟨slider k1, .black⟩
  let (r, more) := r.below 3
  let (r, s2) := anchor r
  let (r, k2) := r.below 3
  let b := if more = 0 then putIfEmpty b s2 ⟨slider k2, .black⟩ else b
  let (r, bk) := r.below 64
  let b := putIfEmpty b bk ⟨.king, .black⟩
  -- every second time White can answer with a double push of its own that lands beside a black pawn: one
  -- en-passant target is then replaced by another
  let (r, again) := r.below 2
  let (r, x) := r.below 8
  let (r, side2) := r.below 2
  let nx := if x = 0 then 1 else if x = 7 then 6 else if side2 = 0 then x - 1 else x + 1
  let b := if again = 0 && (b[sqAt x 2 % 64]!).isNone && (b[sqAt x 3 % 64]!).isNone then
      putIfEmpty (putIfEmpty b (sqAt x 1) ⟨.pawn, .white⟩) (sqAt nx 3) ⟨.pawn, .black⟩ else b
  let (r, extra) := r.below 4
  let (r, b) := scatter r b extra
  (r, { board := b, player := .white, rights := Rights.none, ep := some ⟨sqAt f 5 % 64, Nat.mod_lt _ (by decide)⟩,
        halfmove := 0, plies := 20 })

/-- castling: kings and rooks at home with all rights, a few attackers and blockers around -/
def castleTemplate (r : Rng) : Rng × Rules.Pos :=
  let empty : Rules.RBoard := Vector.replicate 64 none
  let b := empty.set! 4 (some ⟨.king, .white⟩) |>.set! 0 (some ⟨.rook, .white⟩) |>.set! 7 (some ⟨.rook, .white⟩)
  let b := b.set! 60 (some ⟨.king, .black⟩) |>.set! 56 (some ⟨.rook, .black⟩) |>.set! 63 (some ⟨.rook, .black⟩)
  let (r, n) := r.below 7
  let (r, b) := scatter r b (n + 1)
  let (r, side) := r.below 2
  let (r, rb) := r.below 4
  let rights : Rights := if rb = 0 then ⟨⟨true, false⟩, ⟨false, true⟩⟩ else ⟨⟨true, true⟩, ⟨true, true⟩⟩
  (r, { board := b, player := if side = 0 then .white else .black, rights, ep := none, halfmove := 3,
        plies := 30 + side })

/-- promotions: white pawns on the 7th rank, kings and a few men; often in check -/
def promoTemplate (r : Rng) : Rng × Rules.Pos :=
  let empty : Rules.RBoard := Vector.replicate 64 none
  let (r, f1) := r.below 8
  let (r, f2) := r.below 8
  let b := empty.set! (sqAt f1 6) (some ⟨.pawn, .white⟩)
  let b := putIfEmpty b (sqAt f2 6) ⟨.pawn, .white⟩
  let (r, wk) := r.below 64
  let (r, bk) := r.below 64
  let b := putIfEmpty b wk ⟨.king, .white⟩
  let b := putIfEmpty b bk ⟨.king, .black⟩
  let (r, n) := r.below 6
  let (r, b) := scatter r b n
  (r, { board := b, player := .white, rights := Rights.none, ep := none, halfmove := 0, plies := 60 })

/-- white king boxed in a corner by its own men and checked by a knight (no interposition): the legal
    moves are captures only — of the knight, by men of different values, the knight often protected — so
    the quiet stages of a picker find nothing while good and bad captures exist -/
def boxedCheckTemplate (r : Rng) : Rng × Rules.Pos :=
  let empty : Rules.RBoard := Vector.replicate 64 none
  let (r, corner) := r.below 2
  let kf := if corner = 0 then 7 else 0
  let inner := if corner = 0 then 6 else 1
  let b := empty.set! (sqAt kf 0) (some ⟨.king, .white⟩)
  let (r, g1) := r.below 3
  let b := putIfEmpty b (sqAt inner 0) ⟨if g1 = 0 then .bishop else if g1 = 1 then .rook else .knight, .white⟩
  let b := putIfEmpty b (sqAt kf 1) ⟨.pawn, .white⟩
  let (r, gp) := r.below 4
  let b := if gp = 0 then putIfEmpty b (sqAt inner 1) ⟨.bishop, .white⟩ else putIfEmpty b (sqAt inner 1) ⟨.pawn, .white⟩
  -- the checking knight: (kf∓1, 2) or (kf∓2, 1)
  let (r, which) := r.below 2
  let nf := if which = 0 then (if corner = 0 then 6 else 1) else (if corner = 0 then 5 else 2)
  let nr := if which = 0 then 2 else 1
  let ns := sqAt nf nr
  let b := b.set! ns (some ⟨.knight, .black⟩)
  -- protectors of the knight
  let (r, prot) := r.below 4
  let b := if prot = 0 then b else
    if prot = 1 then putIfEmpty b (sqAt nf 7) ⟨.rook, .black⟩
    else if prot = 2 then putIfEmpty b (sqAt (if nf + 1 < 8 then nf + 1 else nf - 1) (nr + 1)) ⟨.pawn, .black⟩
    else putIfEmpty b (sqAt (if corner = 0 then nf - (7 - nr) else nf + (7 - nr)) 7) ⟨.bishop, .black⟩
  -- white attackers of the knight, of assorted values
  let (r, na) := r.below 3
  let rec attackers (fuel : Nat) (r : Rng) (b : Rules.RBoard) : Rng × Rules.RBoard :=
    match fuel with
    | 0 => (r, b)
    | fuel+1 =>
      let (r, k) := r.below 4
      let (r, d) := r.below 5
      let d := d + 1
      let b := match k with
        | 0 => putIfEmpty b (sqAt nf (nr + d)) ⟨.queen, .white⟩                                   -- on the file
        | 1 => putIfEmpty b (sqAt (if corner = 0 then nf - d else nf + d) nr) ⟨.rook, .white⟩     -- on the rank
        | 2 => putIfEmpty b (sqAt (if corner = 0 then nf - d else nf + d) (nr + d)) ⟨.queen, .white⟩  -- diagonal
        | _ => putIfEmpty b (sqAt (if corner = 0 then nf - 2 else nf + 2) (nr + 1)) ⟨.knight, .white⟩
      attackers fuel r b
  let (r, b) := attackers (na + 1) r b
  let (r, bk) := r.below 64
  let b := putIfEmpty b (sqAt (bk % 8) (4 + bk / 8 % 4)) ⟨.king, .black⟩
  let (r, extra) := r.below 3
  let (r, b) := scatter r b extra
  (r, { board := b, player := .white, rights := Rights.none, ep := none, halfmove := 3, plies := 50 })

/-- a king next to an enemy rook that still stands on its corner with the castling right intact (the king,
    or another man, may capture it: the victim's right must go), both wings, both rights held -/
def cornerRookTemplate (r : Rng) : Rng × Rules.Pos :=
  let empty : Rules.RBoard := Vector.replicate 64 none
  let b := empty.set! 60 (some ⟨.king, .black⟩) |>.set! 56 (some ⟨.rook, .black⟩) |>.set! 63 (some ⟨.rook, .black⟩)
  let (r, wing) := r.below 2
  let (r, where') := r.below 3
  -- white king beside the h8 / a8 rook (g7, h7, g8 resp. b7, a7, b8 are too close to e8 only for g8/b8… keep rank 7)
  let kf := if wing = 0 then (if where' = 0 then 6 else 7) else (if where' = 0 then 1 else 0)
  let b := putIfEmpty b (sqAt kf 6) ⟨.king, .white⟩
  let (r, n) := r.below 4
  let (r, b) := scatter r b n
  let (r, wr) := r.below 2
  let b := if wr = 0 then b else (putIfEmpty (putIfEmpty b 4 ⟨.king, .white⟩) 7 ⟨.rook, .white⟩)
  -- either side to move: with Black to move the castling squares next to the white king are attacked by a king only
  let (r, stm) := r.below 2
  (r, { board := b, player := if stm = 0 then .white else .black, rights := ⟨⟨false, false⟩, ⟨true, true⟩⟩, ep := none,
        halfmove := 2, plies := 78 + stm })

/-- a pawn on the seventh rank pinned along a diagonal by a bishop or queen standing on the last rank next to
    it: its only moves are the four capturing promotions that take the pinner -/
def pinnedPromoTemplate (r : Rng) : Rng × Rules.Pos :=
  let empty : Rules.RBoard := Vector.replicate 64 none
  let (r, f) := r.below 6
  let f := f + 1                      -- pawn file 1..6
  let (r, side) := r.below 2
  let pf := if side = 0 then f + 1 else f - 1      -- pinner's file on rank 8
  let (r, q) := r.below 2
  let b := empty.set! (sqAt f 6) (some ⟨.pawn, .white⟩)
  let b := b.set! (sqAt pf 7) (some ⟨if q = 0 then .bishop else .queen, .black⟩)
  -- the king further down the same diagonal
  let (r, d) := r.below 4
  let d := d + 1
  let kf : Int := if side = 0 then (f : Int) - d else (f : Int) + d
  let kr : Int := 6 - d
  let b := if 0 ≤ kf ∧ kf < 8 ∧ 0 ≤ kr then putIfEmpty b (sqAt kf.toNat kr.toNat) ⟨.king, .white⟩
           else putIfEmpty b (sqAt (if side = 0 then f - 1 else f + 1) 5) ⟨.king, .white⟩
  let (r, bk) := r.below 64
  let b := putIfEmpty b bk ⟨.king, .black⟩
  let (r, n) := r.below 3
  let (r, b) := scatter r b n
  (r, { board := b, player := .white, rights := Rights.none, ep := none, halfmove := 0, plies := 64 })

/-- the king on the last rank checked along it by a rook or queen, a pawn of its own on the seventh rank on a
    file in between: promoting interposes (the queen promotion belongs to the loud moves although it captures
    nothing) -/
def interposePromoTemplate (r : Rng) : Rng × Rules.Pos :=
  let empty : Rules.RBoard := Vector.replicate 64 none
  let (r, a) := r.below 3            -- king file 0..2 or mirrored
  let (r, gap) := r.below 3
  let (r, side) := r.below 2
  let (r, q) := r.below 2
  let kf := if side = 0 then a else 7 - a
  let pf := if side = 0 then a + 1 + gap else 7 - a - 1 - gap
  let rf := if side = 0 then min 7 (pf + 1 + gap) else (pf - 1 - min gap (pf - 1))
  let b := empty.set! (sqAt kf 7) (some ⟨.king, .white⟩)
  let b := b.set! (sqAt pf 6) (some ⟨.pawn, .white⟩)
  let b := b.set! (sqAt rf 7) (some ⟨if q = 0 then .rook else .queen, .black⟩)
  let (r, bk) := r.below 40
  let b := putIfEmpty b bk ⟨.king, .black⟩
  let (r, n) := r.below 3
  let (r, b) := scatter r b n
  (r, { board := b, player := .white, rights := Rights.none, ep := none, halfmove := 0, plies := 90 })

def hasBothKings (p : Rules.Pos) : Bool :=
  Rules.count p.board (· == ⟨.king, .white⟩) == 1 && Rules.count p.board (· == ⟨.king, .black⟩) == 1

/-- a legal template position (both colours: every second one is mirrored) -/
def templatePos (r : Rng) : Rng × Option Rules.Pos :=
  let (r, which) := r.below 16
  let (r, p) := if which < 6 then epTemplate r else if which < 8 then castleTemplate r
    else if which < 10 then promoTemplate r else if which < 12 then boxedCheckTemplate r
    else if which < 14 then cornerRookTemplate r else if which < 15 then pinnedPromoTemplate r
    else interposePromoTemplate r
  let (r, mir) := r.below 2
  let p := if mir = 0 then p else mirrorPos p
  (r, if hasBothKings p && Rules.legalPos p then some p else none)

/-- game history biased towards repetition: reversible moves preferred, frequent "go back" -/
def shufflePlayout (r : Rng) (start : Rules.Pos) (len : Nat) : Rng × List Move :=
  let rec go (fuel : Nat) (r : Rng) (p : Rules.Pos) (hist : List Move) : Rng × List Move :=
    match fuel with
    | 0 => (r, hist.reverse)
    | fuel+1 =>
      let legal := Rules.legalMoves p
      if legal.isEmpty then (r, hist.reverse) else
      -- the move that undoes this side's previous move, if legal
      let back : Option Move := match hist with
        | _ :: m2 :: _ =>
          let cand : Move := ⟨m2.dst, m2.src, .quiet⟩
          if legal.contains cand then some cand else none
        | _ => none
      let reversible := legal.filter fun m =>
        m.flag == .quiet && (Rules.at' p.board m.src).any (fun pc => pc.kind != .pawn)
      let (r, c) := r.below 10
      let (r, m) : Rng × Move :=
        match back with
        | some bm => if c < 5 then (r, bm) else
            if c < 9 && !reversible.isEmpty then r.pick reversible else r.pick legal
        | none => if c < 8 && !reversible.isEmpty then r.pick reversible else r.pick legal
      go fuel r (Rules.apply p m) (m :: hist)
  go len r start []

/-- sparse material for the dead-position rule -/
def sparsePos (r : Rng) : Rng × Option Rules.Pos :=
  let empty : Rules.RBoard := Vector.replicate 64 none
  let (r, wk) := r.below 64
  let (r, bk) := r.below 64
  let b := putIfEmpty (putIfEmpty empty wk ⟨.king, .white⟩) bk ⟨.king, .black⟩
  let (r, n) := r.below 4
  let rec go (fuel : Nat) (r : Rng) (b : Rules.RBoard) : Rng × Rules.RBoard :=
    match fuel with
    | 0 => (r, b)
    | fuel+1 =>
      let (r, ki) := r.below 8
      let k : PieceKind := match ki with | 0 => .knight | 1 => .bishop | 2 => .knight | 3 => .bishop | 4 => .rook | 5 => .queen | 6 => .pawn | _ => .bishop
      let (r, col) := r.below 2
      let (r, sq) := r.below 64
      let sq := if k == .pawn then sqAt sq (1 + sq / 8 % 6) else sq
      go fuel r (putIfEmpty b sq ⟨k, if col = 0 then .white else .black⟩)
  let (r, b) := go n r b
  let (r, side) := r.below 2
  let (r, hm) := r.below 130
  let p : Rules.Pos := { board := b, player := if side = 0 then .white else .black, rights := Rights.none,
                         ep := none, halfmove := hm, plies := 100 + side }
  (r, if hasBothKings p && Rules.legalPos p then some p else none)

/-! ### FEN corruption -/

def fenAlphabet : List Char :=
  "pnbrqkPNBRQK12345678/ wb-KQkqa3h609\t".toList ++ ['x', 'é', '0', ':', '+']

def mutateText (r : Rng) (t : List Char) : Rng × List Char :=
  let (r, kind) := r.below 9
  let (r, i) := r.below (t.length + 1)
  let (r, c) := r.pick fenAlphabet
  match kind with
  | 0 => (r, t.take i ++ t.drop (i + 1))                      -- delete
  | 1 => (r, t.take i ++ [c] ++ t.drop i)                     -- insert
  | 2 => (r, t.take i ++ [c] ++ t.drop (i + 1))               -- replace
  | 3 => (r, t.take i)                                        -- truncate
  | 4 => (r, t ++ [c])                                        -- append
  | 5 => (r, t.take i ++ t.drop i ++ t.drop i)                -- duplicate tail
  | 6 =>                                                      -- bump a digit in the board field
    (r, t.zipIdx.map fun (ch, k) => if k == i && ch.isDigit && ch != '9' then Char.ofNat (ch.toNat + 1) else ch)
  | 7 => (r, t.take i ++ [' '] ++ t.drop i)                   -- extra blank
  | _ => (r, t.take i ++ t.drop (i + 2))                      -- delete two

def numberVariants : List String :=
  ["0", "1", "00", "4294967295", "4294967296", "2147483648", "2147483649", "99999999999999999999", "-1", "+1", "1.0", ""]

/-- positions: random legal placements plus playouts from the start position and from `roots` -/
def genPositions (seed n : Nat) (roots : List String) : List Rules.Pos := Id.run do
  let mut r := Rng.ofSeed seed
  let mut acc : List Rules.Pos := []
  let rootPos := (startFen :: roots).filterMap fun f => (readPosition f).map (·.pos)
  -- one third: playouts
  let mut i := 0
  while acc.length < n / 3 do
    let (r1, root) := r.pick rootPos
    let (r2, len) := r1.below 80
    let (r3, ps, _) := playout r2 root (len + 1)
    r := r3
    acc := (ps.drop (ps.length / 2)).take 12 ++ acc
    i := i + 1
  while acc.length < n do
    let (r1, sparse) := r.below 3
    let (r2, p) := randomLegal r1 (if sparse == 0 then 6 else if sparse == 1 then 14 else 28)
    r := r2
    acc := p :: acc
  return acc.take n

def readLines (path : String) : IO (List String) := do
  if path == "-" then return []
  let txt ← IO.FS.readFile path
  -- corpus roots: keep the positions that satisfy the `Legal` predicate (the repo's own test
  -- positions include some with the side not to move in check)
  return (txt.splitOn "\n").filter fun l =>
    l.trimAscii.toString ≠ "" && !l.startsWith "#" &&
      (match readPosition l with
       | some p => Rules.legalPos p.pos
       | none => false)


end Driver
end Tcheran
