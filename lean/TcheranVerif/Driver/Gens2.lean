import TcheranVerif.Driver.Handlers
/-!
# Request generators for the engine-level properties
-/

namespace Tcheran
namespace Driver

def hex16 (n : Nat) : String := hex (BitVec.ofNat 64 n)

/-! ### C19 -/

def genTT (seed n : Nat) (big : Bool) : IO Unit := do
  let out ← IO.getStdout
  let mut r := Rng.ofSeed (seed + 401)
  for i in List.range n do
    let sizes : List Nat := if big then [0, 1, 1, 2, 3, 7, 16, 64, 256, 1024] else [0, 1, 1, 1, 2, 3]
    let (r1, mb) := r.pick sizes
    let mb := if i == 0 then 0 else mb
    let entries := TT.entriesFor mb
    let (r2, len) := r1.below 70
    r := r2
    let mut ops : List String := []
    let mut curN := entries
    for _ in List.range (len + 5) do
      let (r3, kind) := r.below 20
      -- keys: a handful of slots with several keys colliding on each, plus wild 64-bit keys
      let (r4, slot) := r3.below 4
      let (r5, k) := r4.below 4
      let (r6, wild) := r5.next
      let (r7, useWild) := r6.below 6
      let key : Nat := if useWild == 0 || curN == 0 then wild.toNat else slot + k * curN
      let (r8, b) := r7.pick ["E", "U", "L", "L", "U"]
      let (r9, ev) := r8.below 400
      let (r10, depth) := r9.below 6
      let (r11, ageSel) := r10.below 8
      let (r12, mvSel) := r11.below 3
      let (r13, newMb) := r12.pick sizes
      r := r13
      let age := if ageSel == 0 then toString (ageSel + k) else "g"
      let mv := if mvSel == 0 then "-:0" else if mvSel == 1 then "e2e4:0" else "g1f3:0"
      let op :=
        if kind < 9 then s!"i:{hex16 key}:{b}:{(ev : Int) - 200}:{depth}:{age}:{mv} g:{hex16 key}"
        else if kind < 16 then s!"g:{hex16 key}"
        else if kind < 18 then "n"
        else if kind == 18 then "r"
        else s!"z:{newMb}"
      if kind == 19 then
        curN := TT.entriesFor newMb
      ops := op :: ops
    -- many new-generation steps in a row: the 8-bit counter must survive more than 255 searches
    let (r14, many) := r.below 6
    r := r14
    let tail := if many == 0 then (List.replicate 300 "n") ++ ["i:0000000000000007:E:1:1:g:-:0", "g:0000000000000007"] else []
    out.putStrLn s!"tt\t{mb}\t{" ".intercalate (ops.reverse ++ tail)}"
    -- the fill indicator on tables that really fill up: thousands of consecutive keys (distinct slots), in steps
    if i % 8 == 1 then
      let (r15, mbF) := r.pick [1, 1, 2, 3]
      let (r16, steps) := r15.below 5
      let (r17, chunk) := r16.below 9000
      r := r17
      let fills := (List.range (steps + 2)).map fun j => s!"f:{hex16 (1000003 + j * (chunk + 3072))}:{chunk + 3072}"
      out.putStrLn s!"tt\t{mbF}\t{" ".intercalate (fills ++ ["n", "r"] ++ fills.take 1)}"

/-! ### C14 -/

def genLimits (seed n : Nat) : IO Unit := do
  let out ← IO.getStdout
  let times : List Nat := [0, 1, 2, 10, 50, 199, 200, 201, 1000, 5000, 60000, 600000, 3600000, 86400000]
  let incs : List String := ["-", "0", "100", "2000", "30000"]
  let mtgs : List String := ["-", "1", "2", "40", "1000"]
  for side in ["w", "b"] do
    for t in times do
      for inc in incs do
        for mtg in mtgs do
          for oh in [0, 10, 1000] do
            -- the property's precondition (overhead <= remaining / 2) is judged by the oracle
            out.putStrLn s!"limits\t{side}\t{t}\t{t / 2}\t{inc}\t{inc}\t{mtg}\t-\t{oh}"
  for mt in ["0", "1", "100", "5000"] do
    out.putStrLn s!"limits\tw\t-\t-\t-\t-\t-\t{mt}\t0"
    out.putStrLn s!"limits\tb\t-\t-\t100\t100\t5\t{mt}\t20"
  -- only the opponent's clock known
  out.putStrLn "limits\tw\t-\t5000\t-\t-\t-\t-\t0"
  out.putStrLn "limits\tb\t5000\t-\t-\t-\t-\t-\t0"
  let mut r := Rng.ofSeed (seed + 503)
  for _ in List.range n do
    let (r1, t) := r.below 7200000
    let (r2, small) := r1.below 3
    let (r3, inc) := r2.below 60000
    let (r4, mtg) := r3.below 80
    let (r5, ohSel) := r4.below 1001
    let (r6, side) := r5.below 2
    let (r7, hasMtg) := r6.below 2
    let (r8, hasInc) := r7.below 2
    r := r8
    let t := if small == 0 then t % 3000 else t
    let oh := min ohSel (t / 2)
    out.putStrLn s!"limits\t{if side == 0 then "w" else "b"}\t{t}\t{t + 17}\t{if hasInc == 0 then "-" else toString inc}\t{if hasInc == 0 then "-" else toString (inc / 2)}\t{if hasMtg == 0 then "-" else toString (mtg + 1)}\t-\t{oh}"

/-! ### C16 -/

/-- many promoted pieces: up to nine queens a side, kings, some pawns -/
def heavyPos (r : Rng) : Rng × Option Rules.Pos :=
  let empty : Rules.RBoard := Vector.replicate 64 none
  let (r, wk) := r.below 64
  let (r, bk) := r.below 64
  let b := putIfEmpty (putIfEmpty empty wk ⟨.king, .white⟩) bk ⟨.king, .black⟩
  let (r, nq) := r.below 10
  let (r, nbq) := r.below 10
  let rec fill (fuel : Nat) (r : Rng) (b : Rules.RBoard) (pc : Piece) : Rng × Rules.RBoard :=
    match fuel with
    | 0 => (r, b)
    | fuel+1 =>
      let (r, sq) := r.below 64
      fill fuel r (putIfEmpty b sq pc) pc
  let (r, b) := fill nq r b ⟨.queen, .white⟩
  let (r, b) := fill nbq r b ⟨.queen, .black⟩
  let (r, extra) := r.below 10
  let (r, b) := scatter r b extra
  let (r, side) := r.below 2
  let p : Rules.Pos := { board := b, player := if side = 0 then .white else .black, rights := Rights.none,
                         ep := none, halfmove := 0, plies := 80 + side }
  (r, if hasBothKings p && Rules.legalPos p then some p else none)

def genEval (seed n : Nat) (rootsFile : String) : IO Unit := do
  let roots ← readLines rootsFile
  let out ← IO.getStdout
  for p in genPositions (seed + 601) (n / 2) roots do
    out.putStrLn s!"evalpair\t{posText p}\t{posText (mirrorPos p)}"
  let mut r := Rng.ofSeed (seed + 607)
  let mut k := 0
  let mut tries := 0
  while k < n / 2 && tries < 50 * n do
    tries := tries + 1
    let (r1, p) := heavyPos r
    r := r1
    match p with
    | some p =>
      out.putStrLn s!"evalpair\t{posText p}\t{posText (mirrorPos p)}"
      k := k + 1
    | none => pure ()
  -- positions reached by play, promotions and the capture of promoted pieces above all: the accumulators the
  -- evaluation reads are then the ones carried move by move
  let mut pr := Rng.ofSeed (seed + 733)
  for i in List.range (n / 4 + 8) do
    let (p1, tp) := if i % 3 == 0 then templatePos pr else
      (let (a, b) := promoTemplate pr; (a, if hasBothKings b && Rules.legalPos b then some b else none))
    let (p2, len) := p1.below 7
    pr := p2
    match tp with
    | some start =>
      let (p3, _, ms) := playout pr start (len + 1)
      pr := p3
      out.putStrLn s!"evalplay\t{posText start}\t{" ".intercalate (ms.map Move.text)}"
    | none => pure ()
  -- the blend: a grid over (mg, eg, phase), phase beyond its nominal maximum included
  for mg in ([-32768, -30000, -2000, -1, 0, 1, 777, 2000, 30000, 32767] : List Int) do
    for eg in ([-32768, -30000, -1500, 0, 3, 1500, 30000, 32767] : List Int) do
      for ph in ([0, 1, 12, 23, 24, 25, 30, 48, 74, 100, 256, 32767] : List Int) do
        -- (mg < 0, eg = i16::MIN) has no packed representation: `PhasedEval::new` is its constructor,
        -- not part of the blend, so only representable pairs are quantified over
        if !(eg == -32768 && mg < 0) then
          out.putStrLn s!"blend\t{mg}\t{eg}\t{ph}"
  for _ in List.range n do
    let (r1, a) := r.below 65536
    let (r2, b) := r1.below 65536
    let (r3, ph) := r2.below 80
    r := r3
    if !(b == 0 && a < 32768) then
      out.putStrLn s!"blend\t{(a : Int) - 32768}\t{(b : Int) - 32768}\t{ph}"

/-! ### C20 / C18: positions rich in captures and in like pieces -/

/-- several like pieces of one colour able to reach one square (knights, rooks, queens, bishops),
    with something to capture there -/
def likePiecesPos (r : Rng) : Rng × Option Rules.Pos :=
  let empty : Rules.RBoard := Vector.replicate 64 none
  let (r, wk) := r.below 64
  let (r, bk) := r.below 64
  let b := putIfEmpty (putIfEmpty empty wk ⟨.king, .white⟩) bk ⟨.king, .black⟩
  let (r, ki) := r.below 4
  let k : PieceKind := match ki with | 0 => .knight | 1 => .rook | 2 => .queen | _ => .bishop
  let (r, cnt) := r.below 4
  let rec fill (fuel : Nat) (r : Rng) (b : Rules.RBoard) : Rng × Rules.RBoard :=
    match fuel with
    | 0 => (r, b)
    | fuel+1 =>
      let (r, sq) := r.below 64
      fill fuel r (putIfEmpty b sq ⟨k, .white⟩)
  let (r, b) := fill (cnt + 2) r b
  let (r, extra) := r.below 8
  let (r, b) := scatter r b extra
  let (r, mir) := r.below 2
  let p : Rules.Pos := { board := b, player := .white, rights := Rights.none, ep := none, halfmove := 0, plies := 50 }
  let p := if mir = 0 then p else mirrorPos p
  (r, if hasBothKings p && Rules.legalPos p then some p else none)

/-- exchanges around one square: a victim on a central square, and along each of the eight lines through it
    zero, one or two sliders (the second one x-raying through the first) of either colour, plus knights —
    so that equally valued attackers of one colour stand on one rank, one file or one diagonal, with
    batteries hidden behind some of them -/
def exchangePos (r : Rng) : Rng × Option Rules.Pos :=
  let empty : Rules.RBoard := Vector.replicate 64 none
  let (r, tf) := r.below 4
  let (r, tr) := r.below 4
  let tf := tf + 2
  let tr := tr + 2
  let (r, vk) := r.below 4
  let victim : PieceKind := match vk with | 0 => .pawn | 1 => .knight | 2 => .bishop | _ => .rook
  let b := empty.set! (sqAt tf tr) (some ⟨victim, .black⟩)
  let dirs : List (Int × Int) := [(1, 0), (-1, 0), (0, 1), (0, -1), (1, 1), (1, -1), (-1, 1), (-1, -1)]
  let rec lines (ds : List (Int × Int)) (r : Rng) (b : Rules.RBoard) : Rng × Rules.RBoard :=
    match ds with
    | [] => (r, b)
    | (dx, dy) :: rest =>
      let (r, n) := r.below 4          -- 0, 1, 1, 2 sliders on this line
      let n := if n = 3 then 2 else if n = 0 then 0 else 1
      let (r, gap) := r.below 2
      let place (b : Rules.RBoard) (dist : Nat) (r : Rng) : Rng × Rules.RBoard :=
        let x : Int := (tf : Int) + dx * dist
        let y : Int := (tr : Int) + dy * dist
        if 0 ≤ x ∧ x < 8 ∧ 0 ≤ y ∧ y < 8 then
          let (r, col) := r.below 2
          let (r, q) := r.below 3
          let kind : PieceKind := if q = 0 then .queen else if dx = 0 ∨ dy = 0 then .rook else .bishop
          (r, putIfEmpty b (sqAt x.toNat y.toNat) ⟨kind, if col = 0 then .white else .black⟩)
        else (r, b)
      let (r, b) := if n ≥ 1 then place b (1 + gap) r else (r, b)
      let (r, b) := if n ≥ 2 then place b (2 + gap) r else (r, b)
      lines rest r b
  let (r, b) := lines dirs r b
  -- knights of both colours on knight squares of the target
  let (r, nk) := r.below 3
  let rec knights (fuel : Nat) (r : Rng) (b : Rules.RBoard) : Rng × Rules.RBoard :=
    match fuel with
    | 0 => (r, b)
    | fuel+1 =>
      let (r, i) := r.below 8
      let (r, col) := r.below 2
      let d := Rules.knightDeltas.getD i (1, 2)
      let x : Int := (tf : Int) + d.1
      let y : Int := (tr : Int) + d.2
      let b := if 0 ≤ x ∧ x < 8 ∧ 0 ≤ y ∧ y < 8 then
          putIfEmpty b (sqAt x.toNat y.toNat) ⟨.knight, if col = 0 then .white else .black⟩ else b
      knights fuel r b
  let (r, b) := knights nk r b
  let (r, wk) := r.below 64
  let (r, bk) := r.below 64
  let b := putIfEmpty (putIfEmpty b wk ⟨.king, .white⟩) bk ⟨.king, .black⟩
  let (r, mir) := r.below 2
  let p : Rules.Pos := { board := b, player := .white, rights := Rights.none, ep := none, halfmove := 0, plies := 50 }
  let p := if mir = 0 then p else mirrorPos p
  (r, if hasBothKings p && Rules.legalPos p then some p else none)

/-- two like sliders (rooks or queens) reach one square, one of them while pinned to its king along the very
    line it moves on (the pin does not forbid the move, so the other one's text needs its disambiguator) -/
def pinnedLikePos (r : Rng) : Rng × Option Rules.Pos :=
  let empty : Rules.RBoard := Vector.replicate 64 none
  let (r, vertical) := r.below 2
  let (r, a) := r.below 8          -- the line: file (vertical) or rank (horizontal) of king, pinned man and pinner
  let (r, g) := r.below 8          -- where the second like piece stands on the crossing line
  let (r, q) := r.below 2
  let (r, x) := r.below 4
  let x := x + 2                   -- crossing square at distance 2..5 from the king's end
  let (r, capture) := r.below 3
  let k : PieceKind := if q = 0 then .rook else .queen
  let onLine (i : Nat) : Nat := if vertical = 0 then sqAt a i else sqAt i a   -- i along the line
  let cross (j : Nat) : Nat := if vertical = 0 then sqAt j x else sqAt x j  -- j across, at height x
  let b := empty.set! (onLine 0) (some ⟨.king, .white⟩)
  let b := b.set! (onLine 1) (some ⟨k, .white⟩)
  let pinnerAt := if capture = 0 then x else 7
  let b := b.set! (onLine pinnerAt) (some ⟨if q = 0 then .rook else .queen, .black⟩)
  let b := if g = a then b else putIfEmpty b (cross g) ⟨k, .white⟩
  let (r, bk) := r.below 64
  let b := putIfEmpty b bk ⟨.king, .black⟩
  let (r, extra) := r.below 3
  let (r, b) := scatter r b extra
  let (r, mir) := r.below 2
  let p : Rules.Pos := { board := b, player := .white, rights := Rights.none, ep := none, halfmove := 0, plies := 50 }
  let p := if mir = 0 then p else mirrorPos p
  (r, if hasBothKings p && Rules.legalPos p then some p else none)

def genTactical (kind : String) (seed n : Nat) (rootsFile : String) : IO Unit := do
  let roots ← readLines rootsFile
  let out ← IO.getStdout
  let emit (p : Rules.Pos) : IO Unit :=
    if kind == "see" then out.putStrLn s!"see\t{posText p}\t{posText (mirrorPos p)}"
    else out.putStrLn s!"san\t{posText p}"
  for f in roots do
    match readPosition f with
    | some p => emit p.pos
    | none => pure ()
  for p in genPositions (seed + 701) (n / 2) roots do
    emit p
  let mut r := Rng.ofSeed (seed + 709)
  let mut k := 0
  let mut tries := 0
  while k < n / 2 && tries < 50 * n do
    tries := tries + 1
    let (r1, which) := r.below 6
    let (r2, p) := if which == 0 then templatePos r1 else if which < 3 then likePiecesPos r1
      else if which < 5 then exchangePos r1 else pinnedLikePos r1
    r := r2
    match p with
    | some p =>
      emit p
      k := k + 1
    | none => pure ()

/-! ### C10 -/

def genPicker (seed n : Nat) (rootsFile : String) : IO Unit := do
  let roots ← readLines rootsFile
  let out ← IO.getStdout
  let mut r := Rng.ofSeed (seed + 809)
  let mut parents := genPositions (seed + 811) (n / 2) roots
  -- tactical parents too
  let mut k := 0
  let mut tries := 0
  while k < n / 2 && tries < 50 * n do
    tries := tries + 1
    let (r1, p) := templatePos r
    r := r1
    match p with
    | some p =>
      parents := p :: parents
      k := k + 1
    | none => pure ()
  for parent in parents do
    let legalParent := Rules.legalMoves parent
    let (r1, prev) := pickWeighted r legalParent
    let (r2, usePrev) := r1.below 5
    r := r2
    let prev := if usePrev == 0 then none else prev
    let pos := match prev with
      | some m => Rules.apply parent m
      | none => parent
    let legal := Rules.legalMoves pos
    if legal.isEmpty then continue
    let quiets := legal.filter fun m => !m.isCapture
    -- a remembered move: legal quiet, legal capture, a legal move of the *other* position, or junk
    let remembered (r : Rng) : Rng × String :=
      let (r, sel) := r.below 8
      if sel < 3 && !quiets.isEmpty then
        let (r, m) := r.pick quiets
        (r, m.text)
      else if sel == 3 then
        let (r, m) := r.pick legal
        (r, m.text)
      else if sel == 4 && !legalParent.isEmpty then
        let (r, m) := r.pick legalParent
        (r, m.text)
      else if sel == 5 then
        let (r, a) := r.below 64
        let (r, b) := r.below 63
        -- source and destination differ: the engine's move word has no encoding for a1a1 (all bits zero)
        let m : Move := ⟨⟨a % 64, Nat.mod_lt _ (by decide)⟩, ⟨(b % 63 + 1 + a) % 64, Nat.mod_lt _ (by decide)⟩, .quiet⟩
        (r, m.text)
      else (r, "-")
    let (r3, hashSel) := r.below 3
    let (r4, hm) := r3.pick legal
    let hash := if hashSel == 0 then "-" else hm.text
    let (r5, k1) := remembered r4
    let (r6, k2) := remembered r5
    let (r7, same) := r6.below 6
    let k2 := if same == 0 then k1 else k2
    let (r8, cm) := remembered r7
    let (r9, cmSame) := r8.below 6
    let cm := if cmSame == 0 then k1 else cm
    let (r10, ply) := r9.below 40
    let (r11, nh) := r10.below 6
    r := r11
    let mut hist : List String := []
    for _ in List.range nh do
      if !quiets.isEmpty then
        let (r12, m) := r.pick quiets
        let (r13, d) := r12.below 12
        r := r13
        hist := s!"{m.src.notation}:{m.dst.notation}:{d + 1}" :: hist
    let (r14, loud) := r.below 4
    r := r14
    let loudT := if loud == 0 then "1" else "0"
    let hash := if loud == 0 then "-" else hash
    out.putStrLn s!"picker\t{posText parent}\t{match prev with | some m => m.text | none => "-"}\t{hash}\t{k1}\t{k2}\t{cm}\t{ply}\t{" ".intercalate hist}\t{loudT}"

/-! ### C04 / C08 / C09 / C12 -/

/-- `mode`: "plain" (sequences of full searches on shared tables, C04/C08), "stop" (every poll index
    of one search, then a follow-up search, C09), "repeat" (same state twice and ucinewgame, C12) -/
def genSearch (mode : String) (seed n maxDepth : Nat) (rootsFile : String)
    : IO Unit := do
  let roots ← readLines rootsFile
  let out ← IO.getStdout
  let mut r := Rng.ofSeed (seed + 907)
  let cands := (genPositions (seed + 911) (4 * n) roots).filter fun p => !(Rules.legalMoves p).isEmpty
  let job (p : Rules.Pos) (d stop : Nat) (every : Bool) : String :=
    s!"{posText p}||{d}|{stop}|{if every then 1 else 0}"
  let mut i := 0
  for p in cands.take n do
    i := i + 1
    let (r1, d) := r.below maxDepth
    let (r2, mbSel) := r1.below 4
    let (r3, q) := r2.pick cands
    let (r4, d2) := r3.below maxDepth
    r := r4
    let mb := if mbSel == 0 then 0 else 1
    if mode == "plain" then
      -- three searches sharing tables; a new game in between now and then
      let mid := if i % 3 == 0 then ";N" else ""
      out.putStrLn s!"search\t{mb}\t{job p (d + 1) 0 false};{job q (d2 + 1) 0 false}{mid};{job p (d + 2) 0 false}"
    else if mode == "repeat" then
      out.putStrLn s!"search\t{mb}\t{job p (d + 1) 0 false};{job q (d2 + 1) 0 false};N;{job p (d + 1) 0 false}"
      out.putStrLn s!"search\t{mb}\t{job p (d + 1) 0 false}"
    else
      -- "stop": the k loop is expanded by the orchestrator (it needs the poll count of the free run)
      out.putStrLn s!"search\t{mb}\t{job p (d + 2) 0 true}"

/-! ### C11 at the level of the search: a move that repeats an earlier position of the game is worth a draw -/

/-- games (reversible moves preferred) after which some legal move leads back to a position that already occurred
    since the last capture or pawn move; a depth-1 search of the final position must not score below a draw, and
    a depth-2 search of a position with the clock at 98 or 99 and only reversible moves likewise.  The request is a
    `search` job with the game as history. -/
def genDrawSearch (seed n : Nat) (rootsFile : String) : IO Unit := do
  let roots ← readLines rootsFile
  let out ← IO.getStdout
  let mut r := Rng.ofSeed (seed + 1301)
  let rootPos := (startFen :: roots).filterMap fun f => (readPosition f).map (·.pos)
  let mut k := 0
  let mut tries := 0
  while k < n && tries < 60 * n + 200 do
    tries := tries + 1
    let (r1, root) := r.pick rootPos
    let (r2, len) := r1.below 9
    let (r3, ms) := shufflePlayout r2 root (len + 3)
    r := r3
    -- positions of the game, most recent first
    let rec walk (p : Rules.Pos) (acc : List Rules.Pos) : List Move → List Rules.Pos
      | [] => p :: acc
      | m :: rest => walk (Rules.apply p m) (p :: acc) rest
    match walk root [] ms with
    | [] => pure ()
    | cur :: earlier =>
      let window := earlier.take cur.halfmove
      let repeats := (Rules.legalMoves cur).any fun m =>
        let nxt := Rules.apply cur m
        nxt.halfmove > 0 && (((cur :: window).take nxt.halfmove).any (Rules.samePosition nxt))
      if repeats && !(Rules.inCheck cur.board cur.player) then
        out.putStrLn s!"search\t1\t{posText root}|{" ".intercalate (ms.map Move.text)}|1|0|0"
        k := k + 1

/-! ### C17: whole games, biased to castling / e.p. / all four promotions -/

def genGames (seed n : Nat) (rootsFile : String) : IO Unit := do
  let roots ← readLines rootsFile
  let out ← IO.getStdout
  let mut r := Rng.ofSeed (seed + 1009)
  let rootPos := roots.filterMap fun f => (readPosition f).map (·.pos)
  for i in List.range n do
    let (r1, sel) := r.below 10
    let (r2, start) : Rng × Rules.Pos :=
      if sel < 4 then (r1, startPosition.pos)
      else if sel < 6 && !rootPos.isEmpty then r1.pick rootPos
      else
        let (r', p) := templatePos r1
        (r', p.getD startPosition.pos)
    let (r3, len) := r2.below (if i % 7 == 0 then 300 else 70)
    let (r4, _, ms) := playout r3 start (len + 1)
    r := r4
    out.putStrLn s!"game\t{posText start}\t{" ".intercalate (ms.map Move.text)}"
  -- a man that is not a pawn lands on the en-passant target square (nothing is captured there)
  let mut k := 0
  let mut tries := 0
  while k < n / 6 + 2 && tries < 40 * n + 400 do
    tries := tries + 1
    let (r1, p) := epTemplate r
    let (r2, extra) := scatter r1 p.board 3
    r := r2
    let p := { p with board := extra }
    let (r3, mir) := r.below 2
    r := r3
    let p := if mir = 0 then p else mirrorPos p
    if hasBothKings p && Rules.legalPos p then
      match p.ep with
      | some t =>
        let onto := (Rules.legalMoves p).filter fun m =>
          m.dst == t && ((Rules.at' p.board m.src).map (·.kind)) != some .pawn
        for m in onto do
          let (r4, _, ms) := playout r (Rules.apply p m) 3
          r := r4
          out.putStrLn s!"game\t{posText p}\t{" ".intercalate ((m :: ms).map Move.text)}"
          k := k + 1
      | none => pure ()

/-- move-list texts: well-formed lists from playouts, then corrupted ones -/
def genUciMoves (seed n : Nat) : IO Unit := do
  let out ← IO.getStdout
  let mut r := Rng.ofSeed (seed + 1103)
  for m in Move.quiet E1 G1 :: (MoveFlag.all.map fun f => (⟨⟨52, by decide⟩, ⟨60, by decide⟩, f⟩ : Move)) do
    out.putStrLn s!"ucimoves\t{m.uci}"
  for _ in List.range n do
    let (r1, p) := templatePos r
    let (r2, len) := r1.below 12
    let (r3, _, ms) := playout r2 (p.getD startPosition.pos) (len + 1)
    r := r3
    let t := " ".intercalate (ms.map Move.uci)
    out.putStrLn s!"ucimoves\t{t}"
    let (r4, m1) := mutateText r t.toList
    let (r5, m2) := mutateText r4 m1
    r := r5
    let clean (l : List Char) := String.ofList (l.filter (fun c => c != '\n' && c != '\r'))
    out.putStrLn s!"ucimoves\t{clean m1}"
    out.putStrLn s!"ucimoves\t{clean m2}"

end Driver
end Tcheran
