import TcheranVerif.Model.Eval
namespace Tcheran.Props.C02
theorem placeholder : True := trivial
end Tcheran.Props.C02
#print axioms Tcheran.Props.C02.placeholder
