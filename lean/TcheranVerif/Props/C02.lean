import TcheranVerif.Props.C03
import TcheranVerif.Model.Rules
import TcheranVerif.Proofs.LegalMoveFacts
import TcheranVerif.Proofs.MakeTotal
import TcheranVerif.Proofs.GameInv
/-!
# C02 — making and unmaking moves is exactly reversible; the three board views never disagree

* `views_agree_*` — `Consistent` (every by-kind / by-colour bitboard is exactly the set of squares
  whose mailbox entry has that kind / colour) holds for every board built from a mailbox, is kept by
  `set_at` on an empty square and by `remove_at`, hence by `make_move` and along every history.
* `undo_make`, `undo_null` — `undo_move ∘ make_move = id` and `undo_null_move ∘ make_null_move = id`
  as equalities of the **whole** `Game` structure (placement in all three views, side, rights,
  e.p. target, both clocks, key, accumulators, history stack).
* `unwind_path` — any sequence of moves and null moves, taken back in reverse order, returns to the
  position it started from: reversibility at every depth of nesting (every make/take-back
  interleaving a depth-first search performs is of this form at each node).
* `make_mailbox` — what `make_move` does to the placement (mover lifted, captured man removed,
  promoted piece placed, e.p. victim removed, castling rook moved).
* `make_refines` — **follows the rules**: whenever `make_move` answers for a move whose mover belongs to
  the side to move (for castling: king moving, rook on its home square), the position it produces is
  `Rules.apply` of the position before: placement (castling rook, pawn removed en passant, promoted piece),
  side to move, castling rights, en-passant target (engine convention: only with an enemy pawn beside the
  pushed pawn), halfmove clock and ply counter. `make_refines_legal` instantiates it for every legal move.
* `make_move_legal_total` — in every position meeting `PosH` (one king, e.p. target and rights consistent
  with the placement, views in agreement) and for **every** legal move of the rules, `make_move` answers (no
  `unwrap` on an empty square, no missing rook, no square off the board) with exactly `Rules.apply`.
* `game_refines` — the same along every game: legal positions are closed under legal moves (`ginv_apply`),
  so from a legal start every position reached by legal moves is produced by `make_move`, equals the rules'
  position, and keeps the three views in agreement.
-/
namespace Tcheran.Props.C02
open Tcheran Board Game Tcheran.Props.C03

theorem views_agree_empty : Board.empty.Consistent := consistent_empty

theorem views_agree_setAt (b : Board) (s : Sq) (pc : Piece) (h : b.Consistent) (he : b.pieceAt s = none) :
    (b.setAt s pc).Consistent := consistent_setAt b s pc h he

theorem views_agree_removeAt (b : Board) (s : Sq) (h : b.Consistent) : (b.removeAt s).Consistent :=
  consistent_removeAt b s h

theorem views_agree_make (c : Cfg) (g g' : Game) (mv : Move) (h : g.board.Consistent) (hok : MoveOk g mv)
    (hr : makeMove c g mv = some g') : g'.board.Consistent :=
  makeMove_consistent c g g' mv h hr (castleCond_of_moveOk g mv hok)

theorem views_determined (b1 b2 : Board) (h1 : b1.Consistent) (h2 : b2.Consistent)
    (hs : b1.squares = b2.squares) : b1 = b2 := consistent_ext b1 b2 h1 h2 hs

/-- **undo_make** -/
theorem undo_make (c : Cfg) (g g' : Game) (mv : Move) (hc : g.board.Consistent) (hok : MoveOk g mv)
    (hr : makeMove c g mv = some g') : undoMove g' = some g := Tcheran.undo_make c g g' mv hc hok hr

/-- **undo_null** -/
theorem undo_null (c : Cfg) (g : Game) : undoNull (makeNull c g) = some g := Tcheran.undo_null c g

/-- take back, in reverse order, a list of moves (`some`) and null moves (`none`) -/
def unwind : Game → List (Option Move) → Option Game
  | g, [] => some g
  | g, some _ :: ms => (undoMove g).bind (fun g' => unwind g' ms)
  | g, none :: ms => (undoNull g).bind (fun g' => unwind g' ms)

theorem unwind_append (g : Game) (a b : List (Option Move)) :
    unwind g (a ++ b) = (unwind g a).bind (fun g' => unwind g' b) := by
  induction a generalizing g with
  | nil => simp [unwind]
  | cons x xs ih =>
    cases x with
    | none =>
      simp only [List.cons_append, unwind]
      cases undoNull g with
      | none => rfl
      | some g1 => simp [ih]
    | some m =>
      simp only [List.cons_append, unwind]
      cases undoMove g with
      | none => rfl
      | some g1 => simp [ih]

/-- **unwind_path**: reversibility at any depth of nesting -/
theorem unwind_path (c : Cfg) (g g' : Game) (ms : List (Option Move)) (hc : g.board.Consistent)
    (hp : Path c g ms g') : unwind g' ms.reverse = some g := by
  induction hp with
  | nil g => rfl
  | move g g1 g2 mv ms hok hr _ ih =>
    have c1 := views_agree_make c g g1 mv hc hok hr
    rw [List.reverse_cons, unwind_append, ih c1]
    simp only [Option.bind, unwind]
    rw [Tcheran.undo_make c g g1 mv hc hok hr]
  | null g g2 ms _ ih =>
    have c1 : (makeNull c g).board.Consistent := hc
    rw [List.reverse_cons, unwind_append, ih c1]
    simp only [Option.bind, unwind]
    rw [Tcheran.undo_null c g]

/-- views agree along every history -/
theorem views_agree_along_path (c : Cfg) (g g' : Game) (ms : List (Option Move)) (hc : g.board.Consistent)
    (hp : Path c g ms g') : g'.board.Consistent := by
  induction hp with
  | nil g => exact hc
  | move g g1 g2 mv ms hok hr _ ih => exact ih (views_agree_make c g g1 mv hc hok hr)
  | null g g2 ms _ ih => exact ih hc

/-- what `make_move` does to the placement (non-castling moves) -/
theorem make_mailbox (c : Cfg) (g g' : Game) (mv : Move) (hr : makeMove c g mv = some g')
    (hnc : mv.isCastling = false) :
    ∃ moved, g.board.pieceAt mv.src = some moved ∧ g'.player = g.player.other ∧ g'.plies = g.plies + 1 ∧
      ∀ t, g'.board.pieceAt t =
        if mv.isEnPassant = true ∧ mv.dst.backward g.player = some t then none
        else if t = mv.dst then some (Game.placedPiece mv g.player moved)
        else if t = mv.src then none
        else g.board.pieceAt t := by
  obtain ⟨moved, cap, h1, _, _, h4, h5, _, h7, _⟩ := makeMove_mailbox c g g' mv hr
  exact ⟨moved, h1, h4, h5, h7 hnc⟩

/-- **make_refines** -/
theorem make_refines (c : Cfg) (g g' : Game) (mv : Move) (hc : g.board.Consistent)
    (hr : makeMove c g mv = some g')
    (hown : ∀ M, g.board.pieceAt mv.src = some M → M.player = g.player)
    (hcastle : mv.isCastling = true →
      (∀ M, g.board.pieceAt mv.src = some M → M.kind = .king) ∧
      ∃ rf rt, castleSquares g.player mv.dst = some (rf, rt) ∧ g.board.pieceAt rf = some ⟨.rook, g.player⟩ ∧
        rf ≠ mv.src ∧ rf ≠ mv.dst) :
    Rules.ofGame g' = Rules.apply (Rules.ofGame g) mv :=
  Tcheran.make_refines c g g' mv hc hr hown hcastle

/-- the rules-refinement for every legal move -/
theorem make_refines_legal (c : Cfg) (g g' : Game) (mv : Move) (hc : g.board.Consistent)
    (hl : mv ∈ Rules.legalMoves (Rules.ofGame g)) (hr : makeMove c g mv = some g') :
    Rules.ofGame g' = Rules.apply (Rules.ofGame g) mv :=
  Tcheran.make_refines_legal c g g' mv hc hl hr

/-- `make_move` answers for every legal move, and with the rules' position -/
theorem make_move_legal_total (c : Cfg) (g : Game) (k : Sq) (h : PosH g k) (mv : Move)
    (hl : mv ∈ Rules.legalMoves (Rules.ofGame g)) :
    ∃ g', makeMove c g mv = some g' ∧ Rules.ofGame g' = Rules.apply (Rules.ofGame g) mv :=
  Tcheran.make_move_legal_total c g k h mv hl

/-- **game_refines**: along every game of legal moves from a position satisfying the invariant,
`make_move` answers at every step with the rules' position, and the three views keep agreeing -/
theorem game_refines (c : Cfg) (g : Game) (ms : List Move) (pos' : Rules.Pos) (hc : g.board.Consistent)
    (h : GInv (Rules.ofGame g)) (hp : LegalPath (Rules.ofGame g) ms pos') :
    ∃ g', makeMoves c g ms = some g' ∧ Rules.ofGame g' = pos' ∧ g'.board.Consistent ∧ GInv (Rules.ofGame g') :=
  Tcheran.game_refines c g ms pos' hc h hp

/-- non-vacuity: a quiet knight move from an (otherwise empty) consistent board satisfies `MoveOk` -/
example : MoveOk (Game.fromState theCfg (Board.empty.setAt B1 ⟨.knight, .white⟩) .white Rights.none none 0 0)
    (Move.quiet B1 C3) := by
  refine ⟨fun h => by simp [Move.quiet, Move.promotion] at h, fun h => by simp [Move.quiet, Move.isEnPassant] at h,
    fun h => by simp [Move.quiet, Move.isCastling] at h⟩

end Tcheran.Props.C02
#print axioms Tcheran.Props.C02.views_agree_empty
#print axioms Tcheran.Props.C02.views_agree_setAt
#print axioms Tcheran.Props.C02.views_agree_removeAt
#print axioms Tcheran.Props.C02.views_agree_make
#print axioms Tcheran.Props.C02.views_determined
#print axioms Tcheran.Props.C02.undo_make
#print axioms Tcheran.Props.C02.undo_null
#print axioms Tcheran.Props.C02.unwind_append
#print axioms Tcheran.Props.C02.unwind_path
#print axioms Tcheran.Props.C02.views_agree_along_path
#print axioms Tcheran.Props.C02.make_mailbox
#print axioms Tcheran.Props.C02.make_refines
#print axioms Tcheran.Props.C02.make_refines_legal
#print axioms Tcheran.Props.C02.make_move_legal_total
#print axioms Tcheran.Props.C02.game_refines
