import TcheranVerif.Model.Search
namespace Tcheran.Props.C08
theorem placeholder : True := trivial
end Tcheran.Props.C08
#print axioms Tcheran.Props.C08.placeholder
