import TcheranVerif.Model.Search
import TcheranVerif.Proofs.SearchSound
/-!
# C08 — mate announcements: the score ↔ distance arithmetic (theorems), lines by oracle

`mate_in_moves` / `mated_in_moves`: the announced number of moves is exactly the one that a line of
`p` plies ending in mate corresponds to (`2N−1 = p` resp. `2|N| = p`). `tt_roundtrip`: storing a mate
score relative to the position and reading it back at the same ply returns the score. **`reported_lines_legal`**: every line the search model reports, at every iteration, whatever the
tables hold and wherever it is stopped, is a non-empty sequence of moves each legal in the position reached
by the ones before it (`LegalLine`, from the root) — by the induction of `Proofs/SearchSound.lean`, under
the stated key-faithfulness assumption. **`reported_depths`**: the reported depths are 1, 2, …, k with
k at most the requested limit. That the *length* of a line matches a mate announcement and that its last
position is mate (DESIGN App. B S6) is checked on every info line of every iteration against the Rules
specification and by verbatim agreement with the search model: partial.
-/
namespace Tcheran.Props.C08
open Tcheran Tcheran.Search

theorem mate_consts : Gen.mate = 32000 ∧ Gen.mateThreshold = 31900 := by decide

/-- a mate delivered in `p` plies (p odd for the mover) is announced as mate in `(p+1)/2` -/
theorem mate_in_moves (p : Nat) (hp : p < 100) : isMateInMoves (mateIn p) = some (((p : Int) + 1) / 2) := by
  unfold isMateInMoves mateIn
  rw [mate_consts.1, mate_consts.2]
  have h : (32000 : Int) - p > 31900 := by omega
  rw [if_pos h, Int.tdiv_eq_ediv_of_nonneg (by omega)]
  congr 1; omega

/-- being mated in `p` plies (p even) is announced as mate in `-(p/2)` -/
theorem mated_in_moves (p : Nat) (hp : p < 100) : isMateInMoves (matedIn p) = some (-((p : Int) / 2)) := by
  unfold isMateInMoves matedIn
  rw [mate_consts.1, mate_consts.2]
  have h1 : ¬ ((-32000 : Int) + p > 31900) := by omega
  have h2 : (-32000 : Int) + p < -31900 := by omega
  rw [if_neg h1, if_pos h2]
  have e : (-32000 : Int) - (-32000 + p) = -(p : Int) := by omega
  rw [e, Int.neg_tdiv, Int.tdiv_eq_ediv_of_nonneg (by omega)]

/-- the announced distance determines the parity-correct line length: N>0 ↔ 2N−1 plies, N<0 ↔ 2|N| -/
theorem line_length_of_announcement (p : Nat) :
    (p % 2 = 1 → 2 * (((p : Int) + 1) / 2) - 1 = p) ∧ (p % 2 = 0 → 2 * ((p : Int) / 2) = p) := by
  constructor <;> intro h <;> omega

/-- scores that are not in the mate range are reported as centipawns -/
theorem not_mate (v : Int) (h1 : -31900 ≤ v) (h2 : v ≤ 31900) : isMateInMoves v = none := by
  unfold isMateInMoves
  rw [mate_consts.2]
  rw [if_neg (by omega), if_neg (by omega)]

/-- **tt_roundtrip**: `from_root (from_position v p) p = v` -/
theorem tt_roundtrip (v : Int) (p : Nat) : fromRoot (fromPosition v p) p = v := by
  unfold fromRoot fromPosition
  rw [mate_consts.2]
  simp only
  repeat' split
  all_goals omega

/-- mate scores at any ply up to the maximum search depth fit `i16` -/
theorem mate_scores_in_range (p : Nat) (hp : p ≤ 255) : inI16 (mateIn p) = true ∧ inI16 (matedIn p) = true := by
  unfold inI16 mateIn matedIn i16Min i16Max
  rw [mate_consts.1]
  simp only [Bool.and_eq_true, decide_eq_true_eq]
  omega


open Rules in
/-- **reported_lines_legal** -/
theorem reported_lines_legal (T : SliderTables) (U : Universe) (fuel : Nat) (g : Game) (tt : TT.Table)
    (history : Array Int) (depthLimit : Option Nat) (stopAt : Nat) (everyNode : Bool)
    (hr : U.R 0 g) (htt : TTGood U tt) :
    ∀ i ∈ (search fuel g tt history depthLimit stopAt everyNode).infos, i.pv ≠ [] ∧ LegalLine g i.pv :=
  (search_sound T U fuel g tt history depthLimit stopAt everyNode hr htt).2.1

/-- **reported_depths**: depths 1, 2, …, k and `k ≤` the limit (the maximum search depth when none is given) -/
theorem reported_depths (fuel : Nat) (g : Game) (tt : TT.Table) (history : Array Int)
    (depthLimit : Option Nat) (stopAt : Nat) (everyNode : Bool) :
    (search fuel g tt history depthLimit stopAt everyNode).infos.map (·.depth) =
      List.range' 1 (search fuel g tt history depthLimit stopAt everyNode).infos.length ∧
    (search fuel g tt history depthLimit stopAt everyNode).infos.length ≤ depthLimit.getD Gen.maxSearchDepth :=
  search_depths fuel g tt history depthLimit stopAt everyNode

/-- a legal line can be played: the engine's `make_move` answers at every step with the rules' position -/
theorem legal_line_playable (g : Game) (m : Move) (rest : List Move) (h : LegalLine g (m :: rest)) :
    m ∈ Rules.legalMoves (Rules.ofGame g) ∧ ∃ g', Game.makeMove theCfg g m = some g' ∧ LegalLine g' rest := h

example : isMateInMoves (mateIn 3) = some 2 := by decide
example : isMateInMoves (matedIn 4) = some (-2) := by decide

end Tcheran.Props.C08
#print axioms Tcheran.Props.C08.mate_in_moves
#print axioms Tcheran.Props.C08.mated_in_moves
#print axioms Tcheran.Props.C08.line_length_of_announcement
#print axioms Tcheran.Props.C08.not_mate
#print axioms Tcheran.Props.C08.tt_roundtrip
#print axioms Tcheran.Props.C08.mate_scores_in_range
#print axioms Tcheran.Props.C08.mate_consts
#print axioms Tcheran.Props.C08.reported_lines_legal
#print axioms Tcheran.Props.C08.reported_depths
#print axioms Tcheran.Props.C08.legal_line_playable
