import TcheranVerif.Model.Search
import TcheranVerif.Proofs.SearchSound
import TcheranVerif.Proofs.SearchTerminal
import TcheranVerif.Proofs.SearchReach
/-!
# C08 — mate announcements: the score ↔ distance arithmetic (theorems), lines by oracle

`mate_in_moves` / `mated_in_moves`: the announced number of moves is exactly the one that a line of
`p` plies ending in mate corresponds to (`2N−1 = p` resp. `2|N| = p`). `tt_roundtrip`: storing a mate
score relative to the position and reading it back at the same ply returns the score. **`reported_lines_legal`**: every line the search model reports, at every iteration, whatever the
tables hold and wherever it is stopped, is a non-empty sequence of moves each legal in the position reached
by the ones before it (`LegalLine`, from the root) — by the induction of `Proofs/SearchSound.lean`, under
the stated key-faithfulness assumption. **`reported_depths`**: the reported depths are 1, 2, …, k with
k at most the requested limit. **`mate_born_at_checkmate`** (`Proofs/SearchTerminal.lean`): a node scores itself
`mated_in(plies)` or `0` without a move only when its move loop ends with no move searched, and that happens only
if the position has **no legal move** (the picker's first answer is "no move" only when the generator produced
nothing — C10 — and the generator is exact — C01): the mate score is born exactly at a node the rules call
checkmate, at distance `plies`, the stalemate score exactly at a stalemate. **`static_scores_not_mate`**: no static
evaluation anywhere a search goes lies in the mate range (C16), so every mate score in the tree descends from such
a node. What remains of DESIGN App. B S6 — that the *reported line* has the matching length (the propagation of
the born score through table cut-offs and the PV buffer) — is checked on every info line of every iteration
against the Rules specification and by verbatim agreement with the search model: partial.
-/
namespace Tcheran.Props.C08
open Tcheran Tcheran.Search

theorem mate_consts : Gen.mate = 32000 ∧ Gen.mateThreshold = 31900 := by decide

/-- a mate delivered in `p` plies (p odd for the mover) is announced as mate in `(p+1)/2` -/
theorem mate_in_moves (p : Nat) (hp : p < 100) : isMateInMoves (mateIn p) = some (((p : Int) + 1) / 2) := by
  unfold isMateInMoves mateIn
  rw [mate_consts.1, mate_consts.2]
  have h : (32000 : Int) - p > 31900 := by omega
  rw [if_pos h, Int.tdiv_eq_ediv_of_nonneg (by omega)]
  congr 1; omega

/-- being mated in `p` plies (p even) is announced as mate in `-(p/2)` -/
theorem mated_in_moves (p : Nat) (hp : p < 100) : isMateInMoves (matedIn p) = some (-((p : Int) / 2)) := by
  unfold isMateInMoves matedIn
  rw [mate_consts.1, mate_consts.2]
  have h1 : ¬ ((-32000 : Int) + p > 31900) := by omega
  have h2 : (-32000 : Int) + p < -31900 := by omega
  rw [if_neg h1, if_pos h2]
  have e : (-32000 : Int) - (-32000 + p) = -(p : Int) := by omega
  rw [e, Int.neg_tdiv, Int.tdiv_eq_ediv_of_nonneg (by omega)]

/-- the announced distance determines the parity-correct line length: N>0 ↔ 2N−1 plies, N<0 ↔ 2|N| -/
theorem line_length_of_announcement (p : Nat) :
    (p % 2 = 1 → 2 * (((p : Int) + 1) / 2) - 1 = p) ∧ (p % 2 = 0 → 2 * ((p : Int) / 2) = p) := by
  constructor <;> intro h <;> omega

/-- scores that are not in the mate range are reported as centipawns -/
theorem not_mate (v : Int) (h1 : -31900 ≤ v) (h2 : v ≤ 31900) : isMateInMoves v = none := by
  unfold isMateInMoves
  rw [mate_consts.2]
  rw [if_neg (by omega), if_neg (by omega)]

/-- **tt_roundtrip**: `from_root (from_position v p) p = v` -/
theorem tt_roundtrip (v : Int) (p : Nat) : fromRoot (fromPosition v p) p = v := by
  unfold fromRoot fromPosition
  rw [mate_consts.2]
  simp only
  repeat' split
  all_goals omega

/-- mate scores at any ply up to the maximum search depth fit `i16` -/
theorem mate_scores_in_range (p : Nat) (hp : p ≤ 255) : inI16 (mateIn p) = true ∧ inI16 (matedIn p) = true := by
  unfold inI16 mateIn matedIn i16Min i16Max
  rw [mate_consts.1]
  simp only [Bool.and_eq_true, decide_eq_true_eq]
  omega


open Rules in
/-- **reported_lines_legal** -/
theorem reported_lines_legal (T : SliderTables) (U : Universe) (fuel : Nat) (g : Game) (tt : TT.Table)
    (history : Array Int) (depthLimit : Option Nat) (stopAt : Nat) (everyNode : Bool)
    (hr : U.R 0 g) (htt : TTGood U tt) :
    ∀ i ∈ (search fuel g tt history depthLimit stopAt everyNode).infos, i.pv ≠ [] ∧ LegalLine g i.pv :=
  (search_sound T U fuel g tt history depthLimit stopAt everyNode hr htt).2.1

/-- **reported_depths**: depths 1, 2, …, k and `k ≤` the limit (the maximum search depth when none is given) -/
theorem reported_depths (fuel : Nat) (g : Game) (tt : TT.Table) (history : Array Int)
    (depthLimit : Option Nat) (stopAt : Nat) (everyNode : Bool) :
    (search fuel g tt history depthLimit stopAt everyNode).infos.map (·.depth) =
      List.range' 1 (search fuel g tt history depthLimit stopAt everyNode).infos.length ∧
    (search fuel g tt history depthLimit stopAt everyNode).infos.length ≤ depthLimit.getD Gen.maxSearchDepth :=
  search_depths fuel g tt history depthLimit stopAt everyNode

/-- a legal line can be played: the engine's `make_move` answers at every step with the rules' position -/
theorem legal_line_playable (g : Game) (m : Move) (rest : List Move) (h : LegalLine g (m :: rest)) :
    m ∈ Rules.legalMoves (Rules.ofGame g) ∧ ∃ g', Game.makeMove theCfg g m = some g' ∧ LegalLine g' rest := h

open Rules in
/-- **mate_born_at_checkmate**: the move loop of a node (fresh picker, hash move legal or none — which `TTGood`
guarantees) ending with no move searched means the position has no legal move; with the node's check verdict
(= the rules', C01) the score then returned is `mated_in(plies)` exactly for a checkmate and `0` exactly for a
stalemate -/
theorem mate_born_at_checkmate (T : SliderTables) (fuel : Nat) (g : Game) (hs : SInv g) (alpha0 beta : Int)
    (plies : Nat) (inCheck : Bool) (hchk : kingInCheck g.board g.player = some inCheck)
    (depth : Nat) (ev : Int) (nm : NodeMoves) (hnm : nodeMoves g = some nm)
    (prevBest : Option Move) (hpb : ∀ h, prevBest = some h → h ∈ legalMoves (ofGame g))
    (alpha : Int) (pv : List Move) (c : Search.Ctx) (b' : TT.Bound) (bm' : Option Move) (be' : Int) (pv' : List Move)
    (c' : Search.Ctx)
    (hloop : negamax.loop fuel g alpha0 beta plies inCheck depth ev nm 300 (Picker.new prevBest) alpha .upper none
        i16Min 0 pv c = (.ok (b', bm', be', 0), pv', c')) :
    isCheckmate (ofGame g) = inCheck ∧ isStalemate (ofGame g) = !inCheck ∧
    (finishNode g depth plies inCheck b' bm' be' 0 pv' c').res = .ok (if inCheck then matedIn plies else 0) := by
  obtain ⟨hno, hfin⟩ := terminal_verdict T fuel g hs alpha0 beta plies inCheck depth ev nm hnm prevBest hpb alpha pv c
    b' bm' be' pv' c' hloop
  obtain ⟨kk, hkk⟩ := hs.2.king g.player
  have hic : inCheck = Rules.inCheck g.board.squares g.player := by
    have := kingInCheck_agrees T g.board hs.1 g.player kk (kingSq_unique _ _ kk hkk)
    rw [hchk] at this
    exact Option.some.inj this
  refine ⟨?_, ?_, hfin⟩
  · unfold isCheckmate
    rw [hno]
    show (Rules.inCheck g.board.squares g.player && true) = inCheck
    rw [← hic, Bool.and_true]
  · unfold isStalemate
    rw [hno]
    show (!(Rules.inCheck g.board.squares g.player) && true) = !inCheck
    rw [← hic, Bool.and_true]

open Rules in
/-- **static_scores_not_mate**: at every position a search from a legal root can reach, the static evaluation
(stand-pat value, leaf value of quiescence) is outside the mate range -/
theorem static_scores_not_mate (T : SliderTables) (root : Game) (hs : Sync theCfg root)
    (hl : legalPos (ofGame root) = true) (n : Nat) (g : Game) (hr : ReachN root n g) :
    ∃ v, Eval.eval g = some v ∧ isMateInMoves v = none := by
  obtain ⟨v, hv, _, _, hm⟩ := reach_eval T root hs hl n g hr
  exact ⟨v, hv, hm⟩

example : isMateInMoves (mateIn 3) = some 2 := by decide
example : isMateInMoves (matedIn 4) = some (-2) := by decide

end Tcheran.Props.C08
#print axioms Tcheran.Props.C08.mate_in_moves
#print axioms Tcheran.Props.C08.mated_in_moves
#print axioms Tcheran.Props.C08.line_length_of_announcement
#print axioms Tcheran.Props.C08.not_mate
#print axioms Tcheran.Props.C08.tt_roundtrip
#print axioms Tcheran.Props.C08.mate_scores_in_range
#print axioms Tcheran.Props.C08.mate_consts
#print axioms Tcheran.Props.C08.reported_lines_legal
#print axioms Tcheran.Props.C08.reported_depths
#print axioms Tcheran.Props.C08.legal_line_playable
#print axioms Tcheran.Props.C08.mate_born_at_checkmate
#print axioms Tcheran.Props.C08.static_scores_not_mate
