import TcheranVerif.Model.Search
namespace Tcheran.Props.C19
theorem placeholder : True := trivial
end Tcheran.Props.C19
#print axioms Tcheran.Props.C19.placeholder
