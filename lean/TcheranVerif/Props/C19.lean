import TcheranVerif.Model.TT
/-!
# C19 — the transposition table never confuses positions and keeps honest statistics

Theorems over `Model/TT.lean` for **every** sequence of operations, key and table size:
`WF` (slot invariant `key % n = i`, `occupied` = number of occupied slots, 8-bit generation, size
bookkeeping) is preserved by every operation (`wf_*`, `wf_run`); a probe answers only from an entry
stored under exactly that key (`get_sound`), and that entry is the latest admitted insert
(`get_insert_admitted`, `get_insert_rejected`, `insert_other_key`); the replacement policy has the
four clauses of the property (`policy_*`); `reset`/`resize` empty the table; the fill indicator is
`⌊1000·occupied/n⌋` (the Rust evaluates it in `f32`: ± 1 permille, checked by correspondence).
-/
namespace Tcheran.Props.C19
open Tcheran Tcheran.TT Std

structure WF (t : Table) : Prop where
  size_ok : t.n = entriesFor t.sizeMb
  slot_ok : ∀ i e, t.slots[i]? = some e → i < t.n ∧ e.key.toNat % t.n = i
  occ_ok : t.occupied = t.slots.size
  gen_ok : t.generation < 256

theorem wf_new (mb : Nat) : WF (TT.new mb) := by
  refine ⟨rfl, ?_, ?_, by simp [TT.new, TT.empty]⟩
  · intro i e h; simp [TT.new, TT.empty] at h
  · simp [TT.new, TT.empty]

theorem wf_reset (t : Table) (h : WF t) : WF t.reset := by
  refine ⟨h.size_ok, ?_, ?_, by simp [Table.reset]⟩
  · intro i e he; simp [Table.reset] at he
  · simp [Table.reset]

theorem wf_resize (t : Table) (mb : Nat) (h : WF t) : WF (t.resize mb) := by
  unfold Table.resize
  split
  · exact h
  · exact wf_new mb

theorem wf_newGeneration (t : Table) (h : WF t) : WF t.newGeneration := by
  refine ⟨h.size_ok, h.slot_ok, h.occ_ok, ?_⟩
  simp only [Table.newGeneration]; omega

theorem idx_lt (t : Table) (k : BB) (hn : t.n ≠ 0) : t.idx k < t.n := by
  unfold Table.idx; exact Nat.mod_lt _ (by omega)

theorem wf_insert (t : Table) (k : BB) (d : Data) (h : WF t) : WF (t.insert k d) := by
  unfold Table.insert
  split
  · exact h
  · rename_i hn
    simp only
    split
    · rename_i old hold
      split
      · refine ⟨h.size_ok, ?_, ?_, h.gen_ok⟩
        · intro i e he
          simp only [HashMap.getElem?_insert] at he
          split at he
          · rename_i hi
            have : t.idx k = i := by simpa using hi
            cases he
            exact ⟨this ▸ idx_lt t k hn, this ▸ rfl⟩
          · exact h.slot_ok i e he
        · simp only [HashMap.size_insert]
          have : t.idx k ∈ t.slots := by
            rw [HashMap.mem_iff_isSome_getElem?, hold]; rfl
          rw [if_pos this]; exact h.occ_ok
      · exact h
    · rename_i hnone
      refine ⟨h.size_ok, ?_, ?_, h.gen_ok⟩
      · intro i e he
        simp only [HashMap.getElem?_insert] at he
        split at he
        · rename_i hi
          have : t.idx k = i := by simpa using hi
          cases he
          exact ⟨this ▸ idx_lt t k hn, this ▸ rfl⟩
        · exact h.slot_ok i e he
      · simp only [HashMap.size_insert]
        have : ¬ t.idx k ∈ t.slots := by
          rw [HashMap.mem_iff_isSome_getElem?, hnone]; simp
        rw [if_neg this, h.occ_ok]

/-- **get_sound**: a hit comes from an entry stored under exactly the probed key, in its own slot -/
theorem get_sound (t : Table) (k : BB) (d : Data) (hg : t.get k = some d) :
    ∃ e, t.slots[t.idx k]? = some e ∧ e.key = k ∧ e.data = d := by
  unfold Table.get at hg
  split at hg
  · cases hg
  · split at hg
    · rename_i e he
      split at hg
      · rename_i hk
        cases hg
        exact ⟨e, he, hk, rfl⟩
      · cases hg
    · cases hg

/-- the admission condition of `insert` -/
def admitted (t : Table) (k : BB) (d : Data) : Prop :=
  t.n ≠ 0 ∧ (t.slots[t.idx k]? = none ∨ ∃ old, t.slots[t.idx k]? = some old ∧ shouldOverwrite old.data d = true)

/-- **get_insert_admitted**: what the policy admits is what the next probe of that key returns -/
theorem get_insert_admitted (t : Table) (k : BB) (d : Data) (h : admitted t k d) :
    (t.insert k d).get k = some d := by
  obtain ⟨hn, hs⟩ := h
  have hidx : ∀ t' : Table, t'.n = t.n → t'.idx k = t.idx k := fun t' e => by simp [Table.idx, e]
  unfold Table.insert
  rw [if_neg hn]
  simp only
  rcases hs with hnone | ⟨old, hold, hov⟩
  · rw [hnone]
    simp only [Table.get, hn, if_false, Table.idx, HashMap.getElem?_insert, beq_self_eq_true, if_true]
  · rw [hold]
    simp only [hov, if_true]
    simp only [Table.get, hn, if_false, Table.idx, HashMap.getElem?_insert, beq_self_eq_true, if_true]

/-- **get_insert_rejected**: a rejected insert leaves the table exactly as it was -/
theorem get_insert_rejected (t : Table) (k : BB) (d : Data) (old : Entry)
    (hold : t.slots[t.idx k]? = some old) (hrej : shouldOverwrite old.data d = false) :
    t.insert k d = t := by
  unfold Table.insert
  split
  · rfl
  · simp only [hold, hrej]
    rfl

theorem get_after_slot_insert (t : Table) (k k' : BB) (d x : Data) (occ : Nat) (hne : k' ≠ k) (hn : t.n ≠ 0)
    (hg : ({ t with slots := t.slots.insert (t.idx k) ⟨k, d⟩, occupied := occ } : Table).get k' = some x) :
    t.get k' = some x := by
  unfold Table.get at hg ⊢
  rw [if_neg hn] at hg ⊢
  have hidx : ({ t with slots := t.slots.insert (t.idx k) ⟨k, d⟩, occupied := occ } : Table).idx k' = t.idx k' := rfl
  rw [hidx] at hg
  have hslots : ({ t with slots := t.slots.insert (t.idx k) ⟨k, d⟩, occupied := occ } : Table).slots
      = t.slots.insert (t.idx k) ⟨k, d⟩ := rfl
  rw [hslots, HashMap.getElem?_insert] at hg
  by_cases hi : (t.idx k == t.idx k') = true
  · rw [if_pos hi] at hg
    simp only at hg
    rw [if_neg (fun h => hne h.symm)] at hg
    cases hg
  · rw [if_neg hi] at hg
    exact hg

/-- **insert_other_key**: an insert never makes data appear under a different key -/
theorem insert_other_key (t : Table) (k k' : BB) (d x : Data) (hne : k' ≠ k)
    (hg : (t.insert k d).get k' = some x) : t.get k' = some x := by
  by_cases hn : t.n = 0
  · have e : t.insert k d = t := by unfold Table.insert; rw [if_pos hn]
    rwa [e] at hg
  · cases hs : t.slots[t.idx k]? with
    | none =>
      have e : t.insert k d = { t with slots := t.slots.insert (t.idx k) ⟨k, d⟩, occupied := t.occupied + 1 } := by
        unfold Table.insert; rw [if_neg hn]; simp only [hs]
      rw [e] at hg
      exact get_after_slot_insert t k k' d x _ hne hn hg
    | some old =>
      by_cases hov : shouldOverwrite old.data d = true
      · have e : t.insert k d = { t with slots := t.slots.insert (t.idx k) ⟨k, d⟩, occupied := t.occupied } := by
          unfold Table.insert; rw [if_neg hn]; simp only [hs, hov, if_true]
        rw [e] at hg
        exact get_after_slot_insert t k k' d x _ hne hn hg
      · have e : t.insert k d = t := by
          unfold Table.insert; rw [if_neg hn]; simp only [hs, hov]; rfl
        rwa [e] at hg

/-! ### the replacement policy -/

/-- entries from earlier searches always give way -/
theorem policy_stale (old new : Data) (h : new.age ≠ old.age) : shouldOverwrite old new = true := by
  unfold shouldOverwrite; simp [h]

/-- within one search an exact result is displaced only by another exact result or a deeper one -/
theorem policy_exact_kept (old new : Data) (hage : new.age = old.age) (hold : old.bound = .exact)
    (hnew : new.bound ≠ .exact) (hdepth : new.depth ≤ old.depth) : shouldOverwrite old new = false := by
  unfold shouldOverwrite
  simp [hage, hnew, hold]
  omega

theorem policy_exact_or_deeper (old new : Data) (h : new.bound = .exact ∨ new.depth > old.depth) :
    shouldOverwrite old new = true := by
  unfold shouldOverwrite
  rcases h with h | h
  · by_cases h1 : new.age ≠ old.age
    · simp [h1]
    · by_cases h2 : new.depth > old.depth <;> simp [h1, h2, h]
  · by_cases h1 : new.age ≠ old.age <;> simp [h1, h]

/-! ### reset / resize / statistics -/

theorem reset_empty (t : Table) (k : BB) : t.reset.get k = none := by
  unfold Table.get Table.reset
  split
  · rfl
  · simp

theorem reset_counters (t : Table) : t.reset.occupied = 0 ∧ t.reset.generation = 0 := ⟨rfl, rfl⟩

theorem resize_empty (t : Table) (mb : Nat) (h : t.sizeMb ≠ mb) (k : BB) :
    (t.resize mb).get k = none ∧ (t.resize mb).occupied = 0 ∧ (t.resize mb).generation = 0
      ∧ (t.resize mb).n = entriesFor mb := by
  unfold Table.resize
  rw [if_neg h]
  refine ⟨?_, rfl, rfl, rfl⟩
  unfold Table.get TT.empty
  split
  · rfl
  · simp

/-- after `ucinewgame` the table is the table of a freshly started engine (C12) -/
theorem reset_is_new (t : Table) (h : WF t) : t.reset = TT.new t.sizeMb := by
  unfold Table.reset TT.new TT.empty
  cases t
  simp only at h ⊢
  have := h.size_ok
  simp only at this
  simp [this]

theorem hashfull_spec (t : Table) (h : WF t) (hn : t.n ≠ 0) :
    t.hashfullExact = 1000 * t.slots.size / t.n := by
  unfold Table.hashfullExact
  rw [if_neg hn, h.occ_ok]

theorem entries_per_mb (mb : Nat) : entriesFor mb = mb * 65536 := by
  unfold entriesFor entrySize; omega

/-! ### every operation sequence -/

inductive Op
  | insert (k : BB) (d : Data)
  | newGeneration
  | reset
  | resize (mb : Nat)

def apply (t : Table) : Op → Table
  | .insert k d => t.insert k d
  | .newGeneration => t.newGeneration
  | .reset => t.reset
  | .resize mb => t.resize mb

theorem wf_apply (t : Table) (op : Op) (h : WF t) : WF (apply t op) := by
  cases op with
  | insert k d => exact wf_insert t k d h
  | newGeneration => exact wf_newGeneration t h
  | reset => exact wf_reset t h
  | resize mb => exact wf_resize t mb h

/-- the invariant holds after any number of operations of any kind, for every table size -/
theorem wf_run (mb : Nat) (ops : List Op) : WF (ops.foldl apply (TT.new mb)) := by
  suffices ∀ t, WF t → WF (ops.foldl apply t) from this _ (wf_new mb)
  induction ops with
  | nil => intro t h; exact h
  | cons op ops ih => intro t h; exact ih _ (wf_apply t op h)

/-- non-vacuity: a colliding pair on a 1 MB table, the stale one gives way -/
example : admitted ((TT.new 1).insert 5#64 ⟨.exact, 10, 3, 0, none⟩) (65541#64) ⟨.upper, 1, 1, 1, none⟩ := by
  refine ⟨by simp [TT.new, TT.empty, Table.insert, entriesFor, entrySize],
    Or.inr ⟨⟨5#64, ⟨.exact, 10, 3, 0, none⟩⟩, ?_, by decide⟩⟩
  simp [TT.new, TT.empty, Table.insert, Table.idx, entriesFor, entrySize]

end Tcheran.Props.C19
#print axioms Tcheran.Props.C19.wf_new
#print axioms Tcheran.Props.C19.wf_reset
#print axioms Tcheran.Props.C19.wf_resize
#print axioms Tcheran.Props.C19.wf_newGeneration
#print axioms Tcheran.Props.C19.idx_lt
#print axioms Tcheran.Props.C19.wf_insert
#print axioms Tcheran.Props.C19.get_sound
#print axioms Tcheran.Props.C19.get_insert_admitted
#print axioms Tcheran.Props.C19.get_insert_rejected
#print axioms Tcheran.Props.C19.get_after_slot_insert
#print axioms Tcheran.Props.C19.insert_other_key
#print axioms Tcheran.Props.C19.policy_stale
#print axioms Tcheran.Props.C19.policy_exact_kept
#print axioms Tcheran.Props.C19.policy_exact_or_deeper
#print axioms Tcheran.Props.C19.reset_empty
#print axioms Tcheran.Props.C19.reset_counters
#print axioms Tcheran.Props.C19.resize_empty
#print axioms Tcheran.Props.C19.reset_is_new
#print axioms Tcheran.Props.C19.hashfull_spec
#print axioms Tcheran.Props.C19.entries_per_mb
#print axioms Tcheran.Props.C19.wf_apply
#print axioms Tcheran.Props.C19.wf_run
