import TcheranVerif.Model.Search
namespace Tcheran.Props.C14
theorem placeholder : True := trivial
end Tcheran.Props.C14
#print axioms Tcheran.Props.C14.placeholder
