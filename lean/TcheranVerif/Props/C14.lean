import TcheranVerif.Model.Time
/-!
# C14 — time allocation (theorems over the exact model, constants regenerated from `/repo`)

Durations are nanoseconds in `Nat`. The Rust computes the products in `f32`; the model is exact
and the correspondence compares within the `f32` ε (DESIGN §5 C14), so these inequalities hold
for the code up to a relative 2⁻²³ per multiplication. The wall-clock sentence of C14 (the move is
returned before the flag falls) is runtime behaviour, not proved: partial.
-/
namespace Tcheran.Props.C14
open Tcheran Tcheran.Time

theorem max_time_frac : Gen.p_max_time_per_move = (5, 10) := by decide
theorem soft_frac : Gen.p_soft_time_multiplier = (75, 100) := by decide
theorem hard_frac : Gen.p_hard_time_multiplier = (300, 100) := by decide

/-- the per-move cap is at most half of the time it is computed from (needs only `MAX ≤ 1/2`) -/
theorem cap_le_half (r : Nat) : mulFrac r Gen.p_max_time_per_move ≤ r / 2 := by
  rw [max_time_frac]; unfold mulFrac; simp only; omega

/-- **soft_le_hard**: for every clock tuple -/
theorem soft_le_hard (white : Bool) (tc : Control) (oh s h : Nat)
    (hl : limits white tc oh = some (s, h)) : s ≤ h := by
  unfold limits at hl
  cases tc with
  | infinite => simp at hl; omega
  | exact t => simp at hl; omega
  | clocks c =>
    simp only at hl
    split at hl
    · cases hl
    · rename_i base hb
      simp only [Option.some.injEq, Prod.mk.injEq] at hl
      rw [← hl.1, ← hl.2, soft_frac, hard_frac]
      unfold mulFrac
      simp only
      omega

/-- **hard_le_half**: with an overhead of at most half the remaining time the hard limit is at most
    half of the remaining time after overhead (whatever increment and moves-to-go) -/
theorem hard_le_half (white : Bool) (c : Clocks) (ohMs r s h : Nat)
    (hr : (if white then c.wtime else c.btime) = some r)
    (hoh : 2 * (ohMs * 1000000) ≤ r)
    (hl : limits white (.clocks c) ohMs = some (s, h)) : h ≤ (r - ohMs * 1000000) / 2 := by
  unfold limits at hl
  simp only [hr, Option.getD_some] at hl
  have hmax : max (r - ohMs * 1000000) (ohMs * 1000000) = r - ohMs * 1000000 := by omega
  rw [hmax] at hl
  split at hl
  · cases hl
  · simp only [Option.some.injEq, Prod.mk.injEq] at hl
    rw [← hl.2]
    have := cap_le_half (r - ohMs * 1000000)
    omega

/-- **movetime_exact**: a fixed move time is used as given, for both limits -/
theorem movetime_exact (white : Bool) (t oh : Nat) : limits white (.exact t) oh = some (t, t) := rfl

/-- the computation panics (division by zero) only for `movestogo 0`, which the property excludes -/
theorem limits_total (white : Bool) (c : Clocks) (oh : Nat) (h : c.movestogo ≠ some 0) :
    ∃ s hd, limits white (.clocks c) oh = some (s, hd) := by
  unfold limits
  simp only
  cases hm : c.movestogo with
  | none => exact ⟨_, _, rfl⟩
  | some m =>
    cases m with
    | zero => exact absurd hm h
    | succ k => exact ⟨_, _, rfl⟩

/-- non-vacuity: 60 s + 1 s increment, no moves-to-go, 10 ms overhead -/
example : limits true (.clocks ⟨some 60000000000, some 60000000000, some 1000000000, some 1000000000, none⟩) 10
    = some (1859752500, 7439010000) := by decide

end Tcheran.Props.C14
#print axioms Tcheran.Props.C14.cap_le_half
#print axioms Tcheran.Props.C14.soft_le_hard
#print axioms Tcheran.Props.C14.hard_le_half
#print axioms Tcheran.Props.C14.movetime_exact
#print axioms Tcheran.Props.C14.limits_total
#print axioms Tcheran.Props.C14.max_time_frac
#print axioms Tcheran.Props.C14.soft_frac
#print axioms Tcheran.Props.C14.hard_frac
