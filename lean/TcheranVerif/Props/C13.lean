import TcheranVerif.Props.C19
import TcheranVerif.Gen.SearchParams
import TcheranVerif.Model.Time
/-!
# C13 — every advertised option value is accepted and survivable

With the ranges regenerated from `uci/options.rs` (`Gen/SearchParams`):
* `hash_range`, `threads_range`, `overhead_range` — the advertised spin ranges and that each default
  lies inside its range;
* `table_total` — for **every** Hash value in the advertised range (the minimum 0 included) and every
  sequence of table operations the table stays well-formed, has `mb · 65,536` slots, and probing /
  inserting never divides by zero (`Props.C19.wf_run`; the model's `n = 0` guard mirrors the `fix:`);
* `overhead_total` — for every advertised Move Overhead the limit computation is total whenever
  moves-to-go is not 0 (`Props.C14`).
That the real engine answers `isready` and completes `go depth 3` with a legal move after each value
is decided on the binary (boundaries, neighbours, random interior values): partial.
-/
namespace Tcheran.Props.C13
open Tcheran

theorem hash_range : Gen.opt_hash = (0, 256, 1024) := by decide
theorem threads_range : Gen.opt_threads = (1, 1, 1) := by decide
theorem overhead_range : Gen.opt_moveOverhead = (0, 0, 1000) := by decide

theorem defaults_in_range :
    Gen.opt_hash.1 ≤ Gen.opt_hash.2.1 ∧ Gen.opt_hash.2.1 ≤ Gen.opt_hash.2.2 ∧
    Gen.opt_threads.1 ≤ Gen.opt_threads.2.1 ∧ Gen.opt_threads.2.1 ≤ Gen.opt_threads.2.2 ∧
    Gen.opt_moveOverhead.1 ≤ Gen.opt_moveOverhead.2.1 ∧ Gen.opt_moveOverhead.2.1 ≤ Gen.opt_moveOverhead.2.2 := by
  decide

/-- every advertised hash size: slot count, well-formedness after any operation sequence -/
theorem table_total (mb : Nat) (_h : Gen.opt_hash.1 ≤ mb ∧ mb ≤ Gen.opt_hash.2.2) (ops : List Props.C19.Op) :
    (TT.new mb).n = mb * 65536 ∧ Props.C19.WF (ops.foldl Props.C19.apply (TT.new mb)) :=
  ⟨Props.C19.entries_per_mb mb, Props.C19.wf_run mb ops⟩

/-- the smallest advertised size: a table with no slots never answers and never stores -/
theorem hash_zero_inert (k : BB) (d : TT.Data) : (TT.new 0).get k = none ∧ (TT.new 0).insert k d = TT.new 0 := by
  constructor
  · simp [TT.Table.get, TT.new, TT.empty, TT.entriesFor, TT.entrySize]
  · simp [TT.Table.insert, TT.new, TT.empty, TT.entriesFor, TT.entrySize]

theorem overhead_total (white : Bool) (c : Time.Clocks) (oh : Nat) (_h : oh ≤ Gen.opt_moveOverhead.2.2)
    (hm : c.movestogo ≠ some 0) : ∃ s hd, Time.limits white (.clocks c) oh = some (s, hd) := by
  unfold Time.limits
  simp only
  cases hmm : c.movestogo with
  | none => exact ⟨_, _, rfl⟩
  | some m =>
    cases m with
    | zero => exact absurd hmm hm
    | succ k => exact ⟨_, _, rfl⟩

end Tcheran.Props.C13
#print axioms Tcheran.Props.C13.hash_range
#print axioms Tcheran.Props.C13.threads_range
#print axioms Tcheran.Props.C13.overhead_range
#print axioms Tcheran.Props.C13.defaults_in_range
#print axioms Tcheran.Props.C13.table_total
#print axioms Tcheran.Props.C13.hash_zero_inert
#print axioms Tcheran.Props.C13.overhead_total
