import TcheranVerif.Model.Search
namespace Tcheran.Props.C13
theorem placeholder : True := trivial
end Tcheran.Props.C13
#print axioms Tcheran.Props.C13.placeholder
