import TcheranVerif.Model.Eval
namespace Tcheran.Props.C03
theorem placeholder : True := trivial
end Tcheran.Props.C03
#print axioms Tcheran.Props.C03.placeholder
