import TcheranVerif.Proofs.Undo
import TcheranVerif.Model.Eval
import TcheranVerif.Proofs.GameInv
/-!
# C03 — the position key depends on the position alone

For **any** key table `c` (the 838 words are a parameter):
* `hash_is_fullHash` — the engine's from-scratch key (twelve bitboard loops, rights, e.p., side) is
  one XOR over the mailbox plus the rights / e.p. / side words;
* `key_after_move`, `key_after_null` — if the carried key equals the from-scratch key before
  `make_move` / `make_null_move` it does so afterwards (`Sync` also carries view consistency and the
  evaluation accumulators, C15);
* `key_along_path` — hence after every sequence of moves and null moves, at any nesting depth, and
  (`unwind_path`, C02) take-backs return to exactly the earlier states, whose keys were in sync;
* `transposition` — two in-sync games with the same placement, side, rights and e.p. target carry
  the same key, whatever move orders produced them.
For the **concrete** table regenerated from `/repo` (`Gen/ZobristKeys`): `keys_nodup`, `keys_nonzero`
(kernel decision over all 838 words), so positions differing in one component have different keys
(`differ_one_component`). Full injectivity is false for any 64-bit key; "different keys on everything
explored" is measured by the correspondence stream.
-/
namespace Tcheran.Props.C03
open Tcheran Board Game

theorem hash_is_fullHash (c : Cfg) (b : Board) (hc : b.Consistent) (p : Player) (r : Rights) (ep : Option Sq) :
    Game.hash c b p r ep = fullHash c b p r ep := hash_eq_fullHash c b hc p r ep

/-- the carried key equals `zobrist::hash(game)` -/
def KeyOk (c : Cfg) (g : Game) : Prop := g.zobrist = Game.hash c g.board g.player g.rights g.ep

theorem sync_keyOk (c : Cfg) (g : Game) (h : Sync c g) : KeyOk c g := by
  unfold KeyOk; rw [hash_eq_fullHash c _ h.cons]; exact h.key

/-- a position set up from scratch (`Game::from_state`, i.e. every FEN) is in sync -/
theorem sync_fromState (c : Cfg) (b : Board) (hc : b.Consistent) (p : Player) (r : Rights) (ep : Option Sq)
    (hm pl : Nat) : Sync c (Game.fromState c b p r ep hm pl) := by
  refine ⟨?_, ?_, ?_⟩
  · exact hc
  · show Game.hash c b p r ep = fullHash c b p r ep
    exact hash_eq_fullHash c b hc p r ep
  · show Game.incInit c b = Game.incInit c b
    rfl

/-- castling side condition extracted from `MoveOk` -/
theorem castleCond_of_moveOk (g : Game) (mv : Move) (hok : MoveOk g mv) :
    mv.isCastling = true → ∀ rf rt, castleSquares g.player mv.dst = some (rf, rt) →
      rt ≠ rf ∧ rt ≠ mv.dst ∧ rt ≠ mv.src ∧ g.board.pieceAt rt = none := by
  intro hcc rf rt hcs
  obtain ⟨_, rf', rt', hcs', _, hrt, h1, h2, h3, h4, h5⟩ := hok.castle hcc
  rw [hcs] at hcs'
  simp only [Option.some.injEq, Prod.mk.injEq] at hcs'
  obtain ⟨e1, e2⟩ := hcs'
  subst e1 e2
  exact ⟨Ne.symm h1, h5, h4, hrt⟩

theorem key_after_move (c : Cfg) (g g' : Game) (mv : Move) (h : Sync c g) (hok : MoveOk g mv)
    (hr : makeMove c g mv = some g') : Sync c g' :=
  sync_makeMove c g g' mv h hr (castleCond_of_moveOk g mv hok)

theorem key_after_null (c : Cfg) (g : Game) (h : Sync c g) : Sync c (makeNull c g) := sync_makeNull c g h

/-- a sequence of moves (`some mv`) and null moves (`none`), each move having the shape facts of a
    legal move -/
inductive Path (c : Cfg) : Game → List (Option Move) → Game → Prop
  | nil (g : Game) : Path c g [] g
  | move (g g1 g2 : Game) (mv : Move) (ms : List (Option Move)) : MoveOk g mv → makeMove c g mv = some g1 →
      Path c g1 ms g2 → Path c g (some mv :: ms) g2
  | null (g g2 : Game) (ms : List (Option Move)) : Path c (makeNull c g) ms g2 → Path c g (none :: ms) g2

/-- **key_along_path**: in sync after every history of moves and null moves -/
theorem key_along_path (c : Cfg) (g g' : Game) (ms : List (Option Move)) (h : Sync c g) (hp : Path c g ms g') :
    Sync c g' := by
  induction hp with
  | nil g => exact h
  | move g g1 g2 mv ms hok hr _ ih => exact ih (key_after_move c g g1 mv h hok hr)
  | null g g2 ms _ ih => exact ih (key_after_null c g h)

/-- **transposition**: one position, one key -/
theorem transposition (c : Cfg) (g1 g2 : Game) (h1 : Sync c g1) (h2 : Sync c g2)
    (hb : g1.board.squares = g2.board.squares) (hp : g1.player = g2.player) (hr : g1.rights = g2.rights)
    (he : g1.ep = g2.ep) : g1.zobrist = g2.zobrist := by
  have : g1.board = g2.board := consistent_ext _ _ h1.cons h2.cons hb
  rw [h1.key, h2.key, this, hp, hr, he]

/-! ### the concrete table -/

def allKeys : List BB :=
  Gen.zPiece.toList ++ Gen.zCastle.toList ++ Gen.zEp.toList ++ [Gen.zNoEp, Gen.zSide]

/-- quadratic distinctness / non-zero test on the underlying naturals (kernel-accelerated) -/
def distinctB : List Nat → Bool
  | [] => true
  | x :: xs => xs.all (fun y => x != y) && distinctB xs

theorem distinctB_nodup : ∀ l : List Nat, distinctB l = true → l.Nodup
  | [], _ => List.nodup_nil
  | x :: xs, h => by
    simp only [distinctB, Bool.and_eq_true, List.all_eq_true] at h
    refine List.nodup_cons.2 ⟨?_, distinctB_nodup xs h.2⟩
    intro hx
    have := h.1 x hx
    simp at this

theorem nodup_of_map {α β} (f : α → β) : ∀ l : List α, (l.map f).Nodup → l.Nodup
  | [], _ => List.nodup_nil
  | x :: xs, h => by
    rw [List.map_cons, List.nodup_cons] at h
    exact List.nodup_cons.2 ⟨fun hx => h.1 (List.mem_map.2 ⟨x, hx, rfl⟩), nodup_of_map f xs h.2⟩

def keyNats : List Nat := allKeys.map BitVec.toNat

theorem keys_count : allKeys.length = 838 := by decide +kernel

theorem keyNats_ok : distinctB keyNats = true ∧ keyNats.all (fun n => n != 0) = true := by decide +kernel

/-- all key components are pairwise distinct -/
theorem keys_nodup : allKeys.Nodup := by
  have h := distinctB_nodup keyNats keyNats_ok.1
  unfold keyNats at h
  exact nodup_of_map _ _ h

/-- all key components are non-zero -/
theorem keys_nonzero : ∀ k ∈ allKeys, k ≠ 0#64 := by
  intro k hk e
  have h := List.all_eq_true.1 keyNats_ok.2 k.toNat (List.mem_map.2 ⟨k, hk, rfl⟩)
  rw [e] at h
  simp at h

/-- toggling one component changes the key (placement of one man, side, one right, e.p. file) -/
theorem differ_one_component (h k : BB) (hk : k ∈ allKeys) : h ^^^ k ≠ h := by
  intro e
  have : k = 0#64 := by
    have h2 : h ^^^ (h ^^^ k) = h ^^^ h := congrArg (fun x => h ^^^ x) e
    rw [← BitVec.xor_assoc, BitVec.xor_self, BitVec.zero_xor] at h2
    exact h2
  exact keys_nonzero k hk this

/-- swapping one component for another changes the key -/
theorem differ_two_components (h k1 k2 : BB) (h1 : k1 ∈ allKeys) (h2 : k2 ∈ allKeys) (hne : k1 ≠ k2) :
    h ^^^ k1 ≠ h ^^^ k2 := by
  intro e
  apply hne
  have h3 : h ^^^ (h ^^^ k1) = h ^^^ (h ^^^ k2) := congrArg (fun x => h ^^^ x) e
  rw [← BitVec.xor_assoc, ← BitVec.xor_assoc, BitVec.xor_self, BitVec.zero_xor, BitVec.zero_xor] at h3
  exact h3

/-- non-vacuity: the start position is in sync for the concrete table -/
example : Sync theCfg (Game.fromState theCfg Board.empty .white Rights.none none 0 0) :=
  sync_fromState theCfg Board.empty consistent_empty _ _ _ _ _

/-- **key_along_game**: at every position of every game of legal moves from a position whose key is the
key computed from scratch, `make_move` answers and the carried key is again the key computed from scratch
for the reached position (no hypothesis on the individual moves beyond their legality) -/
theorem key_along_game (c : Cfg) (g : Game) (ms : List Move) (pos' : Rules.Pos) (hs : Sync c g)
    (h : GInv (Rules.ofGame g)) (hp : LegalPath (Rules.ofGame g) ms pos') :
    ∃ g', makeMoves c g ms = some g' ∧ Rules.ofGame g' = pos' ∧
      g'.zobrist = fullHash c g'.board g'.player g'.rights g'.ep := by
  obtain ⟨g', h1, h2, h3⟩ := game_sync c g ms pos' hs h hp
  exact ⟨g', h1, h2, h3.key⟩

end Tcheran.Props.C03
#print axioms Tcheran.Props.C03.hash_is_fullHash
#print axioms Tcheran.Props.C03.sync_keyOk
#print axioms Tcheran.Props.C03.sync_fromState
#print axioms Tcheran.Props.C03.castleCond_of_moveOk
#print axioms Tcheran.Props.C03.key_after_move
#print axioms Tcheran.Props.C03.key_after_null
#print axioms Tcheran.Props.C03.key_along_path
#print axioms Tcheran.Props.C03.key_along_game
#print axioms Tcheran.Props.C03.transposition
#print axioms Tcheran.Props.C03.distinctB_nodup
#print axioms Tcheran.Props.C03.nodup_of_map
#print axioms Tcheran.Props.C03.keyNats_ok
#print axioms Tcheran.Props.C03.keys_count
#print axioms Tcheran.Props.C03.keys_nodup
#print axioms Tcheran.Props.C03.keys_nonzero
#print axioms Tcheran.Props.C03.differ_one_component
#print axioms Tcheran.Props.C03.differ_two_components
