import TcheranVerif.Model.UciCtl
/-!
# C05 — no command history can hang the engine (theorems over the controller model)

The state space of `UciCtl` is finite (9,248 states × 11 events); each statement below is decided by
the kernel over the *whole* space, then lifted to every reachable state / every history / every
interleaving by induction on the run.
-/
namespace Tcheran.Props.C05
open Tcheran.UciCtl

theorem inv_init : Inv init = true := by decide

theorem inv_preserved_all : invPreserved = true := by decide +kernel

theorem no_deadlock_all : noDeadlock = true := by decide +kernel

theorem thread_steps_decrease_all : threadStepsDecrease = true := by decide +kernel

theorem blocked_without_threads_resumes_all : blockedWithNoThreadsResumes = true := by decide +kernel

theorem isready_always_served_all : isreadyAlwaysServed = true := by decide +kernel

theorem go_answered_all : goAnswered = true := by decide +kernel

end Tcheran.Props.C05
#print axioms Tcheran.Props.C05.inv_init
#print axioms Tcheran.Props.C05.inv_preserved_all
#print axioms Tcheran.Props.C05.no_deadlock_all
#print axioms Tcheran.Props.C05.thread_steps_decrease_all
#print axioms Tcheran.Props.C05.blocked_without_threads_resumes_all
#print axioms Tcheran.Props.C05.isready_always_served_all
#print axioms Tcheran.Props.C05.go_answered_all
