import TcheranVerif.Proofs.UciCtlFinite
/-!
# C05 — no command history can hang the engine (theorems over the controller model)

The state space of `UciCtl` is finite (9,248 states × 11 events); each statement below is decided by
the kernel over the *whole* space, then lifted to every reachable state / every history / every
interleaving by induction on the run.
-/
namespace Tcheran.Props.C05
open Tcheran.UciCtl

theorem inv_init : Inv init = true := UciCtlFinite.inv_init
theorem inv_preserved_all : invPreserved = true := UciCtlFinite.inv_preserved_all
theorem no_deadlock_all : noDeadlock = true := UciCtlFinite.no_deadlock_all
theorem thread_steps_decrease_all : threadStepsDecrease = true := UciCtlFinite.thread_steps_decrease_all
theorem blocked_without_threads_resumes_all : blockedWithNoThreadsResumes = true :=
  UciCtlFinite.blocked_without_threads_resumes_all
theorem isready_always_served_all : isreadyAlwaysServed = true := UciCtlFinite.isready_always_served_all
theorem go_answered_all : goAnswered = true := UciCtlFinite.go_answered_all

/-! ### lifting the finite decisions to every run -/

theorem mem_allThreads (t : Option Thread) : t ∈ allThreads := by
  cases t with
  | none => simp [allThreads]
  | some th =>
    cases th with
    | mk pc i f => cases pc <;> cases i <;> cases f <;> simp [allThreads, allPC, allBool]

theorem mem_allStates (s : State) : s ∈ allStates := by
  cases s with
  | mk m c l a b =>
    unfold allStates
    simp only [List.mem_flatMap, List.mem_map]
    refine ⟨m, by cases m <;> simp [allMain], c, by cases c <;> simp [allTarget], l, by cases l <;> simp [allBool],
      a, mem_allThreads a, b, mem_allThreads b, rfl⟩

theorem mem_allEvents (e : Event) : e ∈ allEvents := by
  cases e with
  | cmd c => cases c <;> simp [allEvents, allCmds]
  | thread i => cases i <;> simp [allEvents, allCmds]
  | mainResume => simp [allEvents, allCmds]

/-- one step preserves the invariant, for every state and event -/
theorem inv_step (s s' : State) (e : Event) (hi : Inv s = true) (hs : step s e = some s') : Inv s' = true := by
  have h := List.all_eq_true.1 inv_preserved_all s (mem_allStates s)
  rw [hi] at h
  simp only [Bool.not_true, Bool.false_or] at h
  have h2 := List.all_eq_true.1 h e (mem_allEvents e)
  rw [hs] at h2
  exact h2

/-- a run: any interleaving of GUI commands (conforming ones only are enabled), thread steps and
    resumptions of the main thread -/
def run : State → List Event → Option State
  | s, [] => some s
  | s, e :: es => (step s e).bind (fun s' => run s' es)

theorem inv_run_from (es : List Event) : ∀ (s0 : State), Inv s0 = true → ∀ s, run s0 es = some s → Inv s = true := by
  induction es with
  | nil =>
    intro s0 h0 s hr
    simp only [run, Option.some.injEq] at hr
    rw [← hr]; exact h0
  | cons e es ih =>
    intro s0 h0 s hr
    simp only [run] at hr
    cases hst : step s0 e with
    | none => rw [hst] at hr; cases hr
    | some s1 =>
      rw [hst] at hr
      exact ih s1 (inv_step s0 s1 e h0 hst) s hr

/-- **the invariant holds in every state of every run** (every history, every interleaving) -/
theorem inv_run (es : List Event) (s : State) (h : run init es = some s) : Inv s = true :=
  inv_run_from es init inv_init s h

/-- **no deadlock in any reachable state**: whenever the main thread is blocked it can either resume
    or a search thread can take a step -/
theorem no_deadlock_run (es : List Event) (s : State) (h : run init es = some s)
    (hb : s.main = .waitLatch ∨ s.main = .waitMutex) : (mainResume s).isSome = true ∨ someThreadEnabled s = true := by
  have hi := inv_run es s h
  have hd := List.all_eq_true.1 no_deadlock_all s (mem_allStates s)
  rw [hi] at hd
  simp only [Bool.not_true, Bool.false_or] at hd
  rcases hb with hb | hb <;> rw [hb] at hd <;> simpa using hd

/-- **progress measure**: every thread step strictly decreases `rank` and leaves the main thread's
    state alone, so a blocked main thread is released after at most `rank s ≤ 8` thread steps -/
theorem thread_step_decreases (s s' : State) (i : Bool) (h : threadStep s i = some s') :
    rank s' < rank s ∧ s'.main = s.main := by
  have hd := List.all_eq_true.1 thread_steps_decrease_all s (mem_allStates s)
  have hi := List.all_eq_true.1 hd i (by cases i <;> simp [allBool])
  rw [h] at hi
  simpa using hi

/-- **isready is always served**: in every reachable state where the main thread is idle, `isready`,
    `stop` and `quit` are accepted at once -/
theorem isready_served_run (es : List Event) (s : State) (h : run init es = some s) (hidle : s.main = .idle) :
    (cmdStep s .isready).isSome = true ∧ (cmdStep s .quit).isSome = true ∧ (cmdStep s .stop).isSome = true := by
  have hi := inv_run es s h
  have hd := List.all_eq_true.1 isready_always_served_all s (mem_allStates s)
  rw [hi, hidle] at hd
  have := by simpa using hd
  exact ⟨this.1.1, this.1.2, this.2⟩

end Tcheran.Props.C05
#print axioms Tcheran.Props.C05.mem_allThreads
#print axioms Tcheran.Props.C05.mem_allStates
#print axioms Tcheran.Props.C05.mem_allEvents
#print axioms Tcheran.Props.C05.inv_step
#print axioms Tcheran.Props.C05.inv_run_from
#print axioms Tcheran.Props.C05.inv_run
#print axioms Tcheran.Props.C05.no_deadlock_run
#print axioms Tcheran.Props.C05.thread_step_decreases
#print axioms Tcheran.Props.C05.isready_served_run
#print axioms Tcheran.Props.C05.inv_init
#print axioms Tcheran.Props.C05.inv_preserved_all
#print axioms Tcheran.Props.C05.no_deadlock_all
#print axioms Tcheran.Props.C05.thread_steps_decrease_all
#print axioms Tcheran.Props.C05.blocked_without_threads_resumes_all
#print axioms Tcheran.Props.C05.isready_always_served_all
#print axioms Tcheran.Props.C05.go_answered_all
