import TcheranVerif.Props.C19
import TcheranVerif.Model.Search
/-!
# C12 — same state, same search; `ucinewgame` means a fresh engine

In the model a search is a *function* of (position with its history, table contents, history
heuristic table, depth limit, stop oracle): `search fuel g tt hist depth stopAt every`. Determinism
is therefore definitional; what carries content is that this argument list is **complete** — the
correspondence check shows the model reproduces every info line of the implementation verbatim
from these inputs alone (no clock, address or hidden static enters) — and that `ucinewgame` resets
everything in that list:
* `reset_is_new` — after `ucinewgame` the transposition table *is* the table of a fresh engine with
  the same Hash option (`Props.C19.reset_is_new`), for every well-formed table;
* `newgame_search_eq_fresh` — hence a search after `ucinewgame` equals the search of a fresh engine;
* `history_reset` — the history heuristic table after `reset` is the fresh all-zero table.
Independence from wall-clock time and machine load is sampled (second run under load): partial.
-/
namespace Tcheran.Props.C12
open Tcheran Tcheran.Search

theorem reset_is_new (t : TT.Table) (h : Props.C19.WF t) : t.reset = TT.new t.sizeMb :=
  Props.C19.reset_is_new t h

/-- `PersistentState::reset` then search = fresh `PersistentState::new(hash)` then search -/
theorem newgame_search_eq_fresh (fuel : Nat) (g : Game) (t : TT.Table) (h : Props.C19.WF t)
    (depth : Option Nat) (stopAt : Nat) (every : Bool) :
    search fuel g t.reset newHistory depth stopAt every = search fuel g (TT.new t.sizeMb) newHistory depth stopAt every := by
  rw [reset_is_new t h]

/-- whatever was searched before: any sequence of table operations keeps the table well-formed, so
    the reset afterwards gives the fresh table -/
theorem newgame_after_any_history (mb : Nat) (ops : List Props.C19.Op) :
    (ops.foldl Props.C19.apply (TT.new mb)).reset = TT.new (ops.foldl Props.C19.apply (TT.new mb)).sizeMb :=
  reset_is_new _ (Props.C19.wf_run mb ops)

theorem history_reset : newHistory = Array.replicate 8192 (0 : Int) := rfl

theorem decay_of_fresh : historyDecay newHistory = newHistory := by
  unfold historyDecay newHistory
  simp [Array.map_replicate, Int.tdiv]

end Tcheran.Props.C12
#print axioms Tcheran.Props.C12.reset_is_new
#print axioms Tcheran.Props.C12.newgame_search_eq_fresh
#print axioms Tcheran.Props.C12.newgame_after_any_history
#print axioms Tcheran.Props.C12.history_reset
#print axioms Tcheran.Props.C12.decay_of_fresh
