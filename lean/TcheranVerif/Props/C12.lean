import TcheranVerif.Model.Search
namespace Tcheran.Props.C12
theorem placeholder : True := trivial
end Tcheran.Props.C12
#print axioms Tcheran.Props.C12.placeholder
