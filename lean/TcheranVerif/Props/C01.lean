import TcheranVerif.Proofs.LegalPos
import TcheranVerif.Proofs.GenerateNodup
import TcheranVerif.Proofs.GameInv
import TcheranVerif.Props.C07
/-!
# C01 — legal move generation is exact

Model: `Model/Movegen.lean` (staged bitboard generator: checkers, check mask, pin masks, captures then
quiets) against `Model/Rules.lean` (mailbox; a move is legal iff pseudo-legal and the mover's king is
not attacked afterwards). All statements are for **every** position, not a sample.

* `attackers_exact`, `attacked_verdict` — bit `q` of `generate_attackers_of(board, player, t)` is set
  exactly when the man on `q` attacks `t` under the rules; the set is non-empty iff `t` is attacked.
* `check_verdict` — `Board::king_in_check` agrees with the rules whenever the side has a king.
* `generate_exact` — in every position meeting `PosH` (the side to move has exactly one king, the
  e.p. target and the castling rights are consistent with the placement, the three board views agree)
  both generator stages answer (no panic) and together list exactly the rules' legal moves: same squares,
  same capture / e.p. / castling / promotion label. `generate_exact_legal` derives `PosH` from the decidable
  `Legal` predicate of the quantifier; `generateLegal_exact` is the same for `generate_legal_moves`,
  whose only other outcome is the 218-move capacity of `MoveList`.
* per class: `king_moves_exact`, `knight_moves_exact`, `slider_moves_exact_gen`, the seven pawn stages,
  `enPassant_spec`, `castles_spec` (`Proofs/*.lean`), on top of `plain_legal_iff` (checkers and pins),
  `pins_family` (what `get_pins` computes) and `pin_generic`.

The two slider lookups enter through `SliderTables`; the `_tables` corollaries discharge it with
`Props.C07` (the 107,648-case table sweep, decided by the kernel alone).
* `generate_nodup` — no move occurs twice in what the two stages return (each stage is duplicate-free by
  construction; the sixteen stages are told apart by mover, flag and shape of the move).
* `legal_closed` — the positions satisfying the invariant behind `PosH` (one king a side, the side not to
  move not in check, e.p. target and castling rights consistent with the placement) are closed under the
  legal moves of the rules; `game_generate_exact` — hence at **every position of every game** of legal moves
  from a legal start the generator is exact and duplicate-free, with `make_move` supplying the positions.
Not proved: that positions of real games never hold more than 218 legal moves (the `MoveList` capacity).
-/
namespace Tcheran.Props.C01
open Tcheran Tcheran.Board Tcheran.Rules

theorem attackers_exact (T : SliderTables) (b : Board) (hc : Consistent b) (p : Player) (t q : Sq) :
    mem (attackersOf b p t) q = true ↔ AttacksFrom b.squares p.other q t :=
  mem_attackersOf T b hc p t q

theorem attacked_verdict (T : SliderTables) (b : Board) (hc : Consistent b) (p : Player) (t : Sq) :
    attackersOf b p t ≠ 0#64 ↔ attacked b.squares p.other t = true :=
  attackersOf_ne_zero T b hc p t

theorem check_verdict (T : SliderTables) (b : Board) (hc : Consistent b) (p : Player) (k : Sq)
    (hk : kingSq b.squares p = some k) : kingInCheck b p = some (inCheck b.squares p) :=
  kingInCheck_agrees T b hc p k hk

/-- **generate_exact** -/
theorem generate_exact (T : SliderTables) (g : Game) (k : Sq) (h : PosH g k) :
    ∃ caps cache quiets, generateCaptures g = some (caps, cache) ∧ generateQuiets g cache = some quiets ∧
      ∀ m, m ∈ caps ++ quiets ↔ m ∈ legalMoves (ofGame g) :=
  Tcheran.generate_exact T g k h

/-- **none listed twice** -/
theorem generate_nodup (T : SliderTables) (g : Game) (k : Sq) (h : PosH g k)
    (caps : List Move) (cache : MovegenCache) (quiets : List Move)
    (hcaps : generateCaptures g = some (caps, cache)) (hquiets : generateQuiets g cache = some quiets) :
    (caps ++ quiets).Nodup :=
  Tcheran.generate_nodup T g k h caps cache quiets hcaps hquiets

/-- the same from the decidable `Legal` predicate -/
theorem generate_exact_legal (T : SliderTables) (g : Game) (hc : Consistent g.board)
    (hl : legalPos (ofGame g) = true) :
    ∃ caps cache quiets, generateCaptures g = some (caps, cache) ∧ generateQuiets g cache = some quiets ∧
      ∀ m, m ∈ caps ++ quiets ↔ m ∈ legalMoves (ofGame g) := by
  obtain ⟨k, h⟩ := posH_of_legal g hc hl
  exact Tcheran.generate_exact T g k h

/-- `generate_legal_moves`: either exactly the legal moves, or more than 218 moves were generated -/
theorem generateLegal_exact (T : SliderTables) (g : Game) (hc : Consistent g.board)
    (hl : legalPos (ofGame g) = true) :
    (∃ ms, generateLegal g = some ms ∧ ∀ m, m ∈ ms ↔ m ∈ legalMoves (ofGame g)) ∨
    (generateLegal g = none ∧ ∃ ms : List Move, ms.length > 218 ∧ ∀ m, m ∈ ms ↔ m ∈ legalMoves (ofGame g)) := by
  obtain ⟨caps, cache, quiets, h1, h2, h3⟩ := generate_exact_legal T g hc hl
  by_cases hlen : (caps ++ quiets).length > 218
  · right
    refine ⟨?_, caps ++ quiets, hlen, h3⟩
    unfold generateLegal
    rw [h1]
    show (do let quiets ← generateQuiets g cache; _) = _
    rw [h2]
    show (if (caps ++ quiets).length > 218 then none else _) = none
    rw [if_pos hlen]
  · left
    refine ⟨caps ++ quiets, ?_, h3⟩
    unfold generateLegal
    rw [h1]
    show (do let quiets ← generateQuiets g cache; _) = _
    rw [h2]
    show (if (caps ++ quiets).length > 218 then none else _) = _
    rw [if_neg hlen]
    rfl

/-- the engine's in-check verdict for the side to move of a legal position -/
theorem check_verdict_legal (T : SliderTables) (g : Game) (hc : Consistent g.board)
    (hl : legalPos (ofGame g) = true) :
    kingInCheck g.board g.player = some (inCheck g.board.squares g.player) := by
  obtain ⟨k, h⟩ := posH_of_legal g hc hl
  exact kingInCheck_agrees T g.board hc g.player k (kingSq_unique _ _ k h.ctx.king)

/-- legal positions are closed under legal moves -/
theorem legal_closed (pos : Rules.Pos) (m : Move) (h : GInv pos) (hl : m ∈ legalMoves pos) :
    GInv (Rules.apply pos m) := ginv_apply pos m h hl

/-- exactness at every position of every game of legal moves from a legal start -/
theorem game_generate_exact (T : SliderTables) (c : Cfg) (g : Game) (ms : List Move) (pos' : Rules.Pos)
    (hc : Consistent g.board) (hl : legalPos (ofGame g) = true) (hp : LegalPath (ofGame g) ms pos') :
    ∃ g', makeMoves c g ms = some g' ∧ ofGame g' = pos' ∧
      ∃ caps cache quiets, generateCaptures g' = some (caps, cache) ∧ generateQuiets g' cache = some quiets ∧
        (caps ++ quiets).Nodup ∧ ∀ m, m ∈ caps ++ quiets ↔ m ∈ legalMoves pos' :=
  Tcheran.game_generate_exact T c g ms pos' hc hl hp

/-- the slider tables of the engine are the ray walks (`Props.C07`) -/
theorem sliderTables : SliderTables :=
  ⟨Tcheran.Props.C07.rook_table_geometric, Tcheran.Props.C07.bishop_table_geometric⟩

theorem generate_exact_tables (g : Game) (hc : Consistent g.board) (hl : legalPos (ofGame g) = true) :
    ∃ caps cache quiets, generateCaptures g = some (caps, cache) ∧ generateQuiets g cache = some quiets ∧
      ∀ m, m ∈ caps ++ quiets ↔ m ∈ legalMoves (ofGame g) :=
  generate_exact_legal sliderTables g hc hl

theorem check_verdict_tables (g : Game) (hc : Consistent g.board) (hl : legalPos (ofGame g) = true) :
    kingInCheck g.board g.player = some (inCheck g.board.squares g.player) :=
  check_verdict_legal sliderTables g hc hl

/-- non-vacuity: the position of the first defect found (`7b/8/8/4Pp2/3K4/8/8/k7 w - f6`: a white pawn
pinned on the very diagonal along which it may capture en passant) meets every hypothesis -/
def demoBoard : Board :=
  ((((Board.empty.setAt ⟨27, by decide⟩ ⟨.king, .white⟩).setAt ⟨0, by decide⟩ ⟨.king, .black⟩).setAt
    ⟨36, by decide⟩ ⟨.pawn, .white⟩).setAt ⟨37, by decide⟩ ⟨.pawn, .black⟩).setAt ⟨63, by decide⟩ ⟨.bishop, .black⟩

def demoGame : Game :=
  { player := .white, board := demoBoard, rights := Rights.none, ep := some ⟨45, by decide⟩, halfmove := 0,
    plies := 0, zobrist := 0#64, inc := default, history := [] }

theorem demo_consistent : Consistent demoBoard := by
  unfold demoBoard
  refine consistent_setAt _ _ _ (consistent_setAt _ _ _ (consistent_setAt _ _ _ (consistent_setAt _ _ _
    (consistent_setAt _ _ _ consistent_empty ?_) ?_) ?_) ?_) ?_ <;> decide +kernel

theorem demo_legal : legalPos (ofGame demoGame) = true := by decide +kernel

end Tcheran.Props.C01
#print axioms Tcheran.Props.C01.attackers_exact
#print axioms Tcheran.Props.C01.attacked_verdict
#print axioms Tcheran.Props.C01.check_verdict
#print axioms Tcheran.Props.C01.generate_exact
#print axioms Tcheran.Props.C01.generate_nodup
#print axioms Tcheran.Props.C01.generate_exact_legal
#print axioms Tcheran.Props.C01.generateLegal_exact
#print axioms Tcheran.Props.C01.check_verdict_legal
#print axioms Tcheran.Props.C01.legal_closed
#print axioms Tcheran.Props.C01.game_generate_exact
#print axioms Tcheran.Props.C01.sliderTables
#print axioms Tcheran.Props.C01.generate_exact_tables
#print axioms Tcheran.Props.C01.check_verdict_tables
#print axioms Tcheran.Props.C01.demo_consistent
#print axioms Tcheran.Props.C01.demo_legal
