import TcheranVerif.Model.Eval
namespace Tcheran.Props.C01
theorem placeholder : True := trivial
end Tcheran.Props.C01
#print axioms Tcheran.Props.C01.placeholder
