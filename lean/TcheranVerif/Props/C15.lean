import TcheranVerif.Props.C03
/-!
# C15 — the incrementally maintained evaluation state equals recomputation

`Sync c g` (shared with C03) contains `g.inc = IncrementalEvalFields::init(g.board)` for **any**
parameter table `c.pst`, `c.phase`. It holds for every position set up from scratch, is preserved by
`make_move` and `make_null_move`, hence along every history; take-backs return to earlier states
exactly (`Props.C02.unwind_path`), which were in sync. Consequently the accumulators — and the
static evaluation, which reads nothing else that depends on the path — are a function of the board.
-/
namespace Tcheran.Props.C15
open Tcheran Board Game Tcheran.Props.C03

/-- the accumulators as sums over the mailbox -/
theorem inc_is_sum (c : Cfg) (b : Board) :
    Game.incInit c b = ⟨isum sqs (phaseC c b), isum sqs (pstC c b)⟩ := incInit_eq c b

theorem inc_after_setAt (c : Cfg) (g : Game) (s : Sq) (pc : Piece) (h : Sync c g) (he : g.board.pieceAt s = none) :
    (Game.setAt c g s pc).inc = Game.incInit c (Game.setAt c g s pc).board := (sync_setAt c g s pc h he).inc

theorem inc_after_move (c : Cfg) (g g' : Game) (mv : Move) (h : Sync c g) (hok : MoveOk g mv)
    (hr : makeMove c g mv = some g') : g'.inc = Game.incInit c g'.board :=
  (key_after_move c g g' mv h hok hr).inc

theorem inc_after_null (c : Cfg) (g : Game) (h : Sync c g) :
    (makeNull c g).inc = Game.incInit c (makeNull c g).board := (key_after_null c g h).inc

/-- **eval_inv** along every history of moves and null moves -/
theorem inc_along_path (c : Cfg) (g g' : Game) (ms : List (Option Move)) (h : Sync c g) (hp : Path c g ms g') :
    g'.inc = Game.incInit c g'.board := (key_along_path c g g' ms h hp).inc

/-- **eval_path_independent**: two in-sync games with the same placement carry the same accumulators -/
theorem inc_path_independent (c : Cfg) (g1 g2 : Game) (h1 : Sync c g1) (h2 : Sync c g2)
    (hb : g1.board.squares = g2.board.squares) : g1.inc = g2.inc := by
  have : g1.board = g2.board := consistent_ext _ _ h1.cons h2.cons hb
  rw [h1.inc, h2.inc, this]

/-- the phase contributions regenerated from the source are what `piece_phase_value_contribution` says -/
theorem phase_table : Gen.phaseContribution = #[0, 1, 1, 2, 4, 0] := by decide

/-- **inc_along_game**: at every position of every game of legal moves the accumulators equal their
recomputation from the board -/
theorem inc_along_game (c : Cfg) (g : Game) (ms : List Move) (pos' : Rules.Pos) (hs : Sync c g)
    (h : GInv (Rules.ofGame g)) (hp : LegalPath (Rules.ofGame g) ms pos') :
    ∃ g', makeMoves c g ms = some g' ∧ Rules.ofGame g' = pos' ∧ g'.inc = Game.incInit c g'.board := by
  obtain ⟨g', h1, h2, h3⟩ := game_sync c g ms pos' hs h hp
  exact ⟨g', h1, h2, h3.inc⟩

end Tcheran.Props.C15
#print axioms Tcheran.Props.C15.inc_is_sum
#print axioms Tcheran.Props.C15.inc_after_setAt
#print axioms Tcheran.Props.C15.inc_after_move
#print axioms Tcheran.Props.C15.inc_after_null
#print axioms Tcheran.Props.C15.inc_along_path
#print axioms Tcheran.Props.C15.inc_path_independent
#print axioms Tcheran.Props.C15.inc_along_game
#print axioms Tcheran.Props.C15.phase_table
