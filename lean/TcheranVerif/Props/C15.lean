import TcheranVerif.Model.Eval
namespace Tcheran.Props.C15
theorem placeholder : True := trivial
end Tcheran.Props.C15
#print axioms Tcheran.Props.C15.placeholder
