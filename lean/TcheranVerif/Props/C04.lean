import TcheranVerif.Model.Search
namespace Tcheran.Props.C04
theorem placeholder : True := trivial
end Tcheran.Props.C04
#print axioms Tcheran.Props.C04.placeholder
