import TcheranVerif.Model.Search
import TcheranVerif.Proofs.SearchSound
import TcheranVerif.Proofs.SearchReach
/-!
# C04 — the search never overflows its score or counter arithmetic (theorems over the search model)

The search model (`Model/Search.lean`) is a transliteration whose `i16` arithmetic is *checked*: an
overflow is the outcome `panic`. The theorems here show that, under the window invariant that holds
off the root (`-32767 ≤ α < β ≤ 32767`), none of the window computations of `negamax`, of the
aspiration loop and of the mate helpers can overflow, and that the 8-bit generation counter is total.
**`search_returns_legal`** (from `Proofs/SearchSound.lean`, an induction over the fuel of `negamax` and of
its move loop): for every legal root position, every fuel, depth limit, stop instant, table size and table
content left by earlier searches of the same game (`TTGood`), the move the search model answers with is a
legal move of the root — whether it is the head of the principal variation or the fall-back first move of
the picker. The one assumption is stated in the theorem: the 64-bit key does not confuse two positions
reachable from the root that have different legal moves (`KeyFaithful`; every engine that plays its hash
move unverified rests on it, it cannot be discharged). `search_answers_unless_panic`: the only way not to
answer is the outcome `panic` of the model (the checked-arithmetic / index / `unwrap` failures).
**`reach_no_eval_panic`** and its companions rule most of those out at **every position a search from a legal root
can reach** (`ReachN`: legal moves and null moves out of check, to any depth — a superset of what any search
visits): the board views agree, key and accumulators are in step, there are at most sixteen men a side
(`men_apply`), so the static evaluation is total — no table index out of range, no `i16` narrowing failure — and
strictly inside the non-mate range (C16 `eval_bounded`), the reverse-futility and futility margins computed from
it do not overflow, the king is found, `make_move` answers for every legal move. What is left to the runs on the
implementation in both build profiles: the remaining resource panics of whole searches (the 218-slot move
list, the 255-row killer table and PV at extreme depth): partial.
-/
namespace Tcheran.Props.C04
open Tcheran Tcheran.Search

/-- windows handed to children stay inside `i16` and keep the invariant -/
theorem child_window (alpha beta : Int) (ha : -32767 ≤ alpha) (hab : alpha < beta) (hb : beta ≤ 32767) :
    -32767 ≤ neg beta ∧ neg beta < neg alpha ∧ neg alpha ≤ 32767 ∧
    -- zero-window probe `(-α-1, -α)`
    -32767 ≤ neg alpha - 1 ∧ neg alpha - 1 < neg alpha ∧
    -- null-move window `(-β, -β+1)`
    neg beta + 1 ≤ 32767 ∧
    -- `is_pv` test `β - 1`
    inI16 (beta - 1) = true := by
  unfold neg inI16 i16Min i16Max
  simp only [Bool.and_eq_true, decide_eq_true_eq]
  split <;> split <;> omega

/-- the root window of an iteration (`no_window` or `around`) leads to children that satisfy the
    invariant: `neg` saturates `i16::MIN` -/
theorem root_children (alpha beta : Int) (ha : -32768 ≤ alpha) (hab : alpha < beta) (hb : beta ≤ 32767)
    (hb' : -32767 < beta) :
    -32767 ≤ neg beta ∧ neg beta < neg alpha ∧ neg alpha ≤ 32767 := by
  unfold neg i16Min i16Max
  repeat' split
  all_goals omega

/-- `saturating_add/sub` and the clamps keep every aspiration bound inside `i16` -/
theorem sat_in_range (v : Int) : inI16 (sat v) = true := by
  unfold sat inI16 i16Min i16Max
  simp only [Bool.and_eq_true, decide_eq_true_eq]
  omega

theorem clamp_in_range (v : Int) (h : inI16 v = true) : inI16 (clampAlpha v) = true ∧ inI16 (clampBeta v) = true := by
  unfold clampAlpha clampBeta inI16 i16Min i16Max at *
  simp only [Bool.and_eq_true, decide_eq_true_eq] at *
  omega

/-- the widening step grows the width strictly until it saturates (so the window eventually spans
    the whole score range) -/
theorem width_grows (w : Int) (h1 : 2 ≤ w) (h2 : w < 32767) :
    w < sat (w + Int.tdiv w 2) ∧ sat (w + Int.tdiv w 2) ≤ 32767 := by
  unfold sat i16Min i16Max
  rw [Int.tdiv_eq_ediv_of_nonneg (by omega)]
  omega

theorem aspiration_width_const : Gen.p_aspiration_window_size = 25 := by decide

/-- reverse-futility and futility margins cannot overflow for evaluations in the non-mate range -/
theorem pruning_margins (ev : Int) (depth : Nat) (h : -31900 < ev ∧ ev < 31900)
    (hd : depth ≤ Gen.p_reverse_futility_prune_depth) :
    inI16 (ev - Gen.p_reverse_futility_prune_margin_per_ply * depth) = true ∧
    inI16 (ev + Gen.p_futility_prune_max_move_value) = true := by
  have e1 : Gen.p_reverse_futility_prune_depth = 4 := by decide
  have e2 : Gen.p_reverse_futility_prune_margin_per_ply = 150 := by decide
  have e3 : Gen.p_futility_prune_max_move_value = 135 := by decide
  rw [e1] at hd
  rw [e2, e3]
  unfold inI16 i16Min i16Max
  simp only [Bool.and_eq_true, decide_eq_true_eq]
  omega

/-- the generation counter is total: any number of searches keeps it a `u8` -/
theorem generation_total (t : TT.Table) : t.newGeneration.generation < 256 := by
  unfold TT.Table.newGeneration
  simp only
  omega

def iterGen : Nat → TT.Table → TT.Table
  | 0, t => t
  | n+1, t => iterGen n t.newGeneration

theorem generation_iter (t : TT.Table) (n : Nat) (h : t.generation < 256) :
    (iterGen n t).generation < 256 := by
  induction n generalizing t with
  | zero => exact h
  | succ k ih => exact ih _ (generation_total t)

/-- killer table rows exist for every ply the quiescence guard lets through -/
theorem killers_rows : newKillers.size = 255 := by
  unfold newKillers
  rw [Array.size_replicate]
  decide


/-! ### the answer is a legal move (C04 headline, over the search model) -/

open Rules in
/-- **search_returns_legal**: any universe of positions closed under play that contains the root and on
which the key is faithful; any table that is good for it (a fresh one, a reset one, or one left by earlier
searches of positions of the same universe — `search_keeps_table_good`) -/
theorem search_returns_legal (T : SliderTables) (U : Universe) (fuel : Nat) (g : Game) (tt : TT.Table)
    (history : Array Int) (depthLimit : Option Nat) (stopAt : Nat) (everyNode : Bool)
    (hr : U.R 0 g) (htt : TTGood U tt) (m : Move)
    (hm : (search fuel g tt history depthLimit stopAt everyNode).best = some m) :
    m ∈ legalMoves (ofGame g) :=
  (search_sound T U fuel g tt history depthLimit stopAt everyNode hr htt).1 m hm

open Rules in
theorem search_keeps_table_good (T : SliderTables) (U : Universe) (fuel : Nat) (g : Game) (tt : TT.Table)
    (history : Array Int) (depthLimit : Option Nat) (stopAt : Nat) (everyNode : Bool)
    (hr : U.R 0 g) (htt : TTGood U tt) :
    TTGood U (search fuel g tt history depthLimit stopAt everyNode).ctx.tt :=
  (search_sound T U fuel g tt history depthLimit stopAt everyNode hr htt).2.2

open Rules in
/-- the same for the canonical universe of a legal root (everything reachable from it by legal moves and
null moves out of check) and a freshly allocated table of any size: no hypothesis on the table is left -/
theorem fresh_search_returns_legal (T : SliderTables) (root : Game) (h : SInv root) (hk : KeyFaithful root)
    (fuel mb : Nat) (history : Array Int) (depthLimit : Option Nat) (stopAt : Nat) (everyNode : Bool) (m : Move)
    (hm : (search fuel root (TT.new mb) history depthLimit stopAt everyNode).best = some m) :
    m ∈ legalMoves (ofGame root) :=
  search_returns_legal T (Universe.ofRoot root h hk) fuel root (TT.new mb) history depthLimit stopAt everyNode
    ReachN.root (ttGood_new _ mb) m hm

open Rules in
/-- **any earlier search history**: a second search, on the table the first one left, from a position `k`
plies further down the same game, also answers with a legal move -/
theorem search_after_search (T : SliderTables) (U : Universe) (f1 f2 : Nat) (g1 g2 : Game) (k : Nat) (tt : TT.Table)
    (h1 h2 : Array Int) (d1 d2 : Option Nat) (s1 s2 : Nat) (e1 e2 : Bool)
    (hr1 : U.R 0 g1) (hr2 : U.R k g2) (htt : TTGood U tt) (m : Move)
    (hm : (search f2 g2 (search f1 g1 tt h1 d1 s1 e1).ctx.tt h2 d2 s2 e2).best = some m) :
    m ∈ legalMoves (ofGame g2) := by
  have hg := search_keeps_table_good T U f1 g1 tt h1 d1 s1 e1 hr1 htt
  have hsh : TTGood (U.shift k) (search f1 g1 tt h1 d1 s1 e1).ctx.tt :=
    ttGood_shift U 0 k (Nat.zero_le k) _ (fun n g d m hr => hg (0 + n) g d m hr)
  exact search_returns_legal T (U.shift k) f2 g2 _ h2 d2 s2 e2 hr2 hsh m hm

/-- the search model answers unless it panics: there is no third outcome -/
theorem search_answers_unless_panic (fuel : Nat) (g : Game) (tt : TT.Table) (history : Array Int)
    (depthLimit : Option Nat) (stopAt : Nat) (everyNode : Bool) :
    (search fuel g tt history depthLimit stopAt everyNode).best.isSome = true ∨
    (search fuel g tt history depthLimit stopAt everyNode).panic.isSome = true := by
  unfold search
  simp only
  repeat' split
  all_goals simp

/-! `T : SliderTables` (the two magic lookups equal the ray walks) is discharged by `Props.C01.sliderTables`
    from `Props.C07` (kernel-only since the certificate sweep). -/

/-- non-vacuity: the hypotheses are satisfiable. A concrete legal root (`7k/6Q1/6K1/8/8/8/8/8 b`, the side
to move checkmated: nothing is reachable, so key faithfulness is provable; for a root with moves it is
the stated assumption) -/
def mateBoard : Board :=
  ((Board.empty.setAt ⟨63, by decide⟩ ⟨.king, .black⟩).setAt ⟨54, by decide⟩ ⟨.queen, .white⟩).setAt
    ⟨46, by decide⟩ ⟨.king, .white⟩

def mateGame : Game :=
  { player := .black, board := mateBoard, rights := Rights.none, ep := none, halfmove := 0,
    plies := 1, zobrist := 0#64, inc := default, history := [] }

theorem mate_sinv : SInv mateGame := by
  refine ⟨?_, ginv_of_legal _ (by decide +kernel)⟩
  show Board.Consistent mateBoard
  unfold mateBoard
  refine Board.consistent_setAt _ _ _ (Board.consistent_setAt _ _ _ (Board.consistent_setAt _ _ _
    Board.consistent_empty ?_) ?_) ?_ <;> decide +kernel

theorem mate_only_root : ∀ n g, ReachN mateGame n g → g = mateGame := by
  intro n g h
  induction h with
  | root => rfl
  | move n g g' m _ hl _ ih =>
    subst ih
    have : Rules.legalMoves (Rules.ofGame mateGame) = [] := by decide +kernel
    rw [this] at hl; cases hl
  | null n g _ hc ih =>
    subst ih
    have : Rules.inCheck mateGame.board.squares mateGame.player = true := by decide +kernel
    rw [this] at hc; cases hc

example : ∃ (root : Game) (_ : SInv root), KeyFaithful root :=
  ⟨mateGame, mate_sinv, fun n1 n2 g1 g2 h1 h2 _ m => by
    rw [mate_only_root n1 g1 h1, mate_only_root n2 g2 h2]⟩

example : -32767 ≤ neg 50 ∧ neg 50 < neg (-50) := by decide

/-! ### no-panic facts at every position a search can reach -/

open Rules in
/-- **reach_no_eval_panic**: at every position reachable from a legal root by legal moves and null moves out of
check, the static evaluation is total and outside the mate range -/
theorem reach_no_eval_panic (T : SliderTables) (root : Game) (hs : Sync theCfg root)
    (hl : legalPos (ofGame root) = true) (n : Nat) (g : Game) (hr : ReachN root n g) :
    ∃ v, Eval.eval g = some v ∧ -31900 < v ∧ v < 31900 ∧ isMateInMoves v = none :=
  reach_eval T root hs hl n g hr

open Rules in
/-- the pruning margins computed from that evaluation stay inside `i16` -/
theorem reach_margins (T : SliderTables) (root : Game) (hs : Sync theCfg root)
    (hl : legalPos (ofGame root) = true) (n : Nat) (g : Game) (hr : ReachN root n g) (depth : Nat)
    (hd : depth ≤ Gen.p_reverse_futility_prune_depth) :
    ∃ ev, Eval.eval g = some ev ∧
      inI16 (ev - Gen.p_reverse_futility_prune_margin_per_ply * depth) = true ∧
      inI16 (ev + Gen.p_futility_prune_max_move_value) = true := by
  obtain ⟨v, hv, b1, b2, _⟩ := reach_eval T root hs hl n g hr
  exact ⟨v, hv, pruning_margins v depth ⟨b1, b2⟩ hd⟩

open Rules in
/-- `make_move` answers for every legal move there, and the result is reachable again -/
theorem reach_make_total (root : Game) (hs : Sync theCfg root) (hl : legalPos (ofGame root) = true)
    (n : Nat) (g : Game) (hr : ReachN root n g) (m : Move) (hm : m ∈ legalMoves (ofGame g)) :
    ∃ g', Game.makeMove theCfg g m = some g' ∧ ReachN root (n + 1) g' := by
  have h := reach_facts root (nodeOk_of_legal root hs hl) n g hr
  obtain ⟨g', hg'⟩ := make_total_legal g m h.sinv hm
  exact ⟨g', hg', ReachN.move n g g' m hr hm hg'⟩

open Rules in
/-- key and accumulators in step, views consistent, at most sixteen men a side: everywhere a search goes -/
theorem reach_invariants (root : Game) (hs : Sync theCfg root) (hl : legalPos (ofGame root) = true)
    (n : Nat) (g : Game) (hr : ReachN root n g) : NodeOk g :=
  reach_facts root (nodeOk_of_legal root hs hl) n g hr

end Tcheran.Props.C04
#print axioms Tcheran.Props.C04.child_window
#print axioms Tcheran.Props.C04.root_children
#print axioms Tcheran.Props.C04.sat_in_range
#print axioms Tcheran.Props.C04.clamp_in_range
#print axioms Tcheran.Props.C04.width_grows
#print axioms Tcheran.Props.C04.aspiration_width_const
#print axioms Tcheran.Props.C04.pruning_margins
#print axioms Tcheran.Props.C04.generation_total
#print axioms Tcheran.Props.C04.generation_iter
#print axioms Tcheran.Props.C04.killers_rows
#print axioms Tcheran.Props.C04.search_returns_legal
#print axioms Tcheran.Props.C04.search_keeps_table_good
#print axioms Tcheran.Props.C04.fresh_search_returns_legal
#print axioms Tcheran.Props.C04.search_after_search
#print axioms Tcheran.Props.C04.search_answers_unless_panic
#print axioms Tcheran.Props.C04.mate_sinv
#print axioms Tcheran.Props.C04.mate_only_root
#print axioms Tcheran.Props.C04.reach_no_eval_panic
#print axioms Tcheran.Props.C04.reach_margins
#print axioms Tcheran.Props.C04.reach_make_total
#print axioms Tcheran.Props.C04.reach_invariants
