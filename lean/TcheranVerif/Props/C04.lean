import TcheranVerif.Model.Search
/-!
# C04 — the search never overflows its score or counter arithmetic (theorems over the search model)

The search model (`Model/Search.lean`) is a transliteration whose `i16` arithmetic is *checked*: an
overflow is the outcome `panic`. The theorems here show that, under the window invariant that holds
off the root (`-32767 ≤ α < β ≤ 32767`), none of the window computations of `negamax`, of the
aspiration loop and of the mate helpers can overflow, and that the 8-bit generation counter is total.
"Returns a legal move" and "never panics" for whole searches are decided on the implementation by the
Rules oracle and by verbatim agreement with the model in both build profiles; the structural proof
(DESIGN App. B S1–S5) is not mechanised: partial.
-/
namespace Tcheran.Props.C04
open Tcheran Tcheran.Search

/-- windows handed to children stay inside `i16` and keep the invariant -/
theorem child_window (alpha beta : Int) (ha : -32767 ≤ alpha) (hab : alpha < beta) (hb : beta ≤ 32767) :
    -32767 ≤ neg beta ∧ neg beta < neg alpha ∧ neg alpha ≤ 32767 ∧
    -- zero-window probe `(-α-1, -α)`
    -32767 ≤ neg alpha - 1 ∧ neg alpha - 1 < neg alpha ∧
    -- null-move window `(-β, -β+1)`
    neg beta + 1 ≤ 32767 ∧
    -- `is_pv` test `β - 1`
    inI16 (beta - 1) = true := by
  unfold neg inI16 i16Min i16Max
  simp only [Bool.and_eq_true, decide_eq_true_eq]
  split <;> split <;> omega

/-- the root window of an iteration (`no_window` or `around`) leads to children that satisfy the
    invariant: `neg` saturates `i16::MIN` -/
theorem root_children (alpha beta : Int) (ha : -32768 ≤ alpha) (hab : alpha < beta) (hb : beta ≤ 32767)
    (hb' : -32767 < beta) :
    -32767 ≤ neg beta ∧ neg beta < neg alpha ∧ neg alpha ≤ 32767 := by
  unfold neg i16Min i16Max
  repeat' split
  all_goals omega

/-- `saturating_add/sub` and the clamps keep every aspiration bound inside `i16` -/
theorem sat_in_range (v : Int) : inI16 (sat v) = true := by
  unfold sat inI16 i16Min i16Max
  simp only [Bool.and_eq_true, decide_eq_true_eq]
  omega

theorem clamp_in_range (v : Int) (h : inI16 v = true) : inI16 (clampAlpha v) = true ∧ inI16 (clampBeta v) = true := by
  unfold clampAlpha clampBeta inI16 i16Min i16Max at *
  simp only [Bool.and_eq_true, decide_eq_true_eq] at *
  omega

/-- the widening step grows the width strictly until it saturates (so the window eventually spans
    the whole score range) -/
theorem width_grows (w : Int) (h1 : 2 ≤ w) (h2 : w < 32767) :
    w < sat (w + Int.tdiv w 2) ∧ sat (w + Int.tdiv w 2) ≤ 32767 := by
  unfold sat i16Min i16Max
  rw [Int.tdiv_eq_ediv_of_nonneg (by omega)]
  omega

theorem aspiration_width_const : Gen.p_aspiration_window_size = 25 := by decide

/-- reverse-futility and futility margins cannot overflow for evaluations in the non-mate range -/
theorem pruning_margins (ev : Int) (depth : Nat) (h : -31900 < ev ∧ ev < 31900)
    (hd : depth ≤ Gen.p_reverse_futility_prune_depth) :
    inI16 (ev - Gen.p_reverse_futility_prune_margin_per_ply * depth) = true ∧
    inI16 (ev + Gen.p_futility_prune_max_move_value) = true := by
  have e1 : Gen.p_reverse_futility_prune_depth = 4 := by decide
  have e2 : Gen.p_reverse_futility_prune_margin_per_ply = 150 := by decide
  have e3 : Gen.p_futility_prune_max_move_value = 135 := by decide
  rw [e1] at hd
  rw [e2, e3]
  unfold inI16 i16Min i16Max
  simp only [Bool.and_eq_true, decide_eq_true_eq]
  omega

/-- the generation counter is total: any number of searches keeps it a `u8` -/
theorem generation_total (t : TT.Table) : t.newGeneration.generation < 256 := by
  unfold TT.Table.newGeneration
  simp only
  omega

def iterGen : Nat → TT.Table → TT.Table
  | 0, t => t
  | n+1, t => iterGen n t.newGeneration

theorem generation_iter (t : TT.Table) (n : Nat) (h : t.generation < 256) :
    (iterGen n t).generation < 256 := by
  induction n generalizing t with
  | zero => exact h
  | succ k ih => exact ih _ (generation_total t)

/-- killer table rows exist for every ply the quiescence guard lets through -/
theorem killers_rows : newKillers.size = 255 := by
  unfold newKillers
  rw [Array.size_replicate]
  decide

example : -32767 ≤ neg 50 ∧ neg 50 < neg (-50) := by decide

end Tcheran.Props.C04
#print axioms Tcheran.Props.C04.child_window
#print axioms Tcheran.Props.C04.root_children
#print axioms Tcheran.Props.C04.sat_in_range
#print axioms Tcheran.Props.C04.clamp_in_range
#print axioms Tcheran.Props.C04.width_grows
#print axioms Tcheran.Props.C04.aspiration_width_const
#print axioms Tcheran.Props.C04.pruning_margins
#print axioms Tcheran.Props.C04.generation_total
#print axioms Tcheran.Props.C04.generation_iter
#print axioms Tcheran.Props.C04.killers_rows
