import TcheranVerif.Model.See
/-!
# C20 — static exchange evaluation at threshold 0

Theorems over the exact model of `see` (`Model/See.lean`, piece values regenerated from `/repo`):
* `values_ordered` — the value table is monotone in the kind order the attacker loop uses
  (pawn ≤ knight = bishop ≤ rook ≤ queen ≤ king), so "least valuable attacker first" is what the
  kind loop implements; all capturable values are positive;
* `loop_no_defenders` — if the opponent has no attacker of the target square the exchange ends at
  once with the running score unchanged;
* `see_undefended` — hence a capture (or capturing promotion) of an undefended man is favourable
  exactly when its material gain is non-negative, which it always is;
* `loop_stops_when_ahead` — the mover, when on move with a non-negative running score, stops.
Colour-swap invariance, "victim worth at least the attacker ⇒ favourable" for defended targets and
agreement with the swap list on tie-free positions are decided by the correspondence/oracle stream
(every capture of every generated position with its mirrored twin): partial.
-/
namespace Tcheran.Props.C20
open Tcheran Tcheran.See

theorem values : Gen.seeValues = #[100, 300, 300, 500, 900, 10000] := by decide

theorem values_ordered :
    pieceValue .pawn ≤ pieceValue .knight ∧ pieceValue .knight = pieceValue .bishop ∧
    pieceValue .bishop ≤ pieceValue .rook ∧ pieceValue .rook ≤ pieceValue .queen ∧
    pieceValue .queen ≤ pieceValue .king ∧ 0 < pieceValue .pawn := by decide

theorem value_pos (k : PieceKind) : 0 < pieceValue k := by cases k <;> decide

/-- **loop_no_defenders**: no enemy attacker of the target ⇒ the exchange is over, score unchanged -/
theorem loop_no_defenders (b : Board) (mover : Player) (to : Sq) (fuel : Nat) (st : St)
    (hcol : st.color = mover) (hnone : st.attackers &&& b.occFor mover.other = 0#64) :
    loop b mover to (fuel + 1) st = some st.score := by
  unfold loop
  simp only [hcol]
  have hne : mover.other ≠ mover := by cases mover <;> simp [Player.other]
  by_cases hs : st.score ≤ 0
  · rw [if_pos (Or.inr ⟨hne, hs⟩)]
  · rw [if_neg (by
      intro h
      rcases h with ⟨h1, _⟩ | ⟨_, h2⟩
      · exact hne h1
      · exact hs h2)]
    simp only [hnone, if_true]

/-- **loop_stops_when_ahead**: on move with a non-negative score the mover stands pat -/
theorem loop_stops_when_ahead (b : Board) (mover : Player) (to : Sq) (fuel : Nat) (st : St)
    (hcol : st.color = mover.other) (hs : 0 ≤ st.score) : loop b mover to (fuel + 1) st = some st.score := by
  unfold loop
  have : st.color.other = mover := by rw [hcol]; cases mover <;> rfl
  simp only [this]
  rw [if_pos (Or.inl ⟨trivial, hs⟩)]

/-- **see_undefended**: capturing an undefended man is judged favourable (threshold 0) -/
theorem see_undefended (g : Game) (mv : Move) (moved captured : Piece)
    (hsrc : g.board.pieceAt mv.src = some moved) (hdst : g.board.pieceAt mv.dst = some captured)
    (hnep : mv.isEnPassant = false)
    (hundef : (allAttackersOf g.board mv.dst ((g.board.occupancy ^^^ bb mv.src) ||| bb mv.dst)
        &&& ((g.board.occupancy ^^^ bb mv.src) ||| bb mv.dst)) &&& g.board.occFor g.player.other = 0#64) :
    see g mv 0 = some true := by
  unfold see
  simp only [bind, Option.bind, hsrc, hdst, hnep, Bool.false_eq_true, if_false, pure]
  rw [loop_no_defenders g.board g.player mv.dst 63 _ rfl hundef]
  simp only [Option.some.injEq, decide_eq_true_eq]
  have hv := value_pos captured.kind
  cases hp : mv.promotion with
  | none => simp; omega
  | some pr =>
    simp
    have h1 : pieceValue .pawn ≤ pieceValue pr.piece := by cases pr <;> decide
    omega

example : pieceValue .queen = 900 := by decide

end Tcheran.Props.C20
#print axioms Tcheran.Props.C20.values
#print axioms Tcheran.Props.C20.values_ordered
#print axioms Tcheran.Props.C20.value_pos
#print axioms Tcheran.Props.C20.loop_no_defenders
#print axioms Tcheran.Props.C20.loop_stops_when_ahead
#print axioms Tcheran.Props.C20.see_undefended
