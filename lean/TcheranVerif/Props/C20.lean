import TcheranVerif.Model.See
import TcheranVerif.Proofs.SeeMirror
import TcheranVerif.Proofs.SeeSwap
import TcheranVerif.Proofs.SeeKing
import TcheranVerif.Props.C07
/-!
# C20 — static exchange evaluation at threshold 0

Theorems over the exact model of `see` (`Model/See.lean`, piece values regenerated from `/repo`):
* `values_ordered` — the value table is monotone in the kind order the attacker loop uses
  (pawn ≤ knight = bishop ≤ rook ≤ queen ≤ king), so "least valuable attacker first" is what the
  kind loop implements; all capturable values are positive;
* `loop_no_defenders` — if the opponent has no attacker of the target square the exchange ends at
  once with the running score unchanged;
* `see_undefended` — hence a capture (or capturing promotion) of an undefended man is favourable
  exactly when its material gain is non-negative, which it always is;
* `loop_stops_when_ahead` — the mover, when on move with a non-negative running score, stops.
* `see_good_trade` — "victim worth at least the attacker ⇒ favourable", defended or not: after the first
  capture the mover is ahead by at least the value of its own man, so the opponent's recapture leaves a
  non-negative score and the mover then stands pat (`loop_good_trade`).
* **`see_mirror`** — colour-swap invariance, for **every** board (no legality needed), move and threshold: the
  verdict on `Move.mirror mv` in `Game.mirror g` is the verdict on `mv` in `g`. By simulation over the
  loop (`Proofs/SeeMirror.loop_mirror`): the mirrored run is in the flipped state at every iteration; the
  x-ray refreshes commute with the flip through C07's ray-walk equality; the choice among equally valued
  attackers commutes because it is colour-relative (`pickSquare_mirror` — this is exactly what the `fix:`
  of the raw-square tie-break made true; with the old choice the lemma is false). The correspondence
  stream checks that the second position of each request pair is `Game.mirror` of the first.
* **`see_swaplist`** — the loop keeps one running score and stops early; it never builds a swap list. For every
  board and every capture of a man other than a king, whenever `see` answers at threshold zero its verdict is
  `0 ≤ gain − swapAbs capturers placed`: the classical swap list, played out in full over the successive capturers and
  folded from the back with "capturing is optional", using the same values. (`Proofs/SeeSwap`: `abs_agree` for every
  sequence of capturers, `loop_trace`, and `trace_good` — at threshold zero the running score is never zero when
  the opponent is to capture, because every capturable value is an odd multiple of 100 and a king that captures is
  never captured; with an even value in the table, or another threshold, `≤` in the engine's stop test would be wrong,
  see the `example` below.) `capturers` is the sequence the model's own bitboard bookkeeping produces (least valuable
  attacker, x-ray refresh, king rule); that it is the sequence an independent mailbox computation produces on
  tie-free positions is decided by the `see` stream (implementation vs. `See.swapValue`): that part stays partial. `king_first_capture` discharges the hypothesis about a king making the first capture for
  every king capture the generator emits; `spec_is_swaplist` shows the mailbox computation is the same fold.
-/
namespace Tcheran.Props.C20
open Tcheran Tcheran.See

theorem values : Gen.seeValues = #[100, 300, 300, 500, 900, 10000] := by decide

theorem values_ordered :
    pieceValue .pawn ≤ pieceValue .knight ∧ pieceValue .knight = pieceValue .bishop ∧
    pieceValue .bishop ≤ pieceValue .rook ∧ pieceValue .rook ≤ pieceValue .queen ∧
    pieceValue .queen ≤ pieceValue .king ∧ 0 < pieceValue .pawn := by decide

theorem value_pos (k : PieceKind) : 0 < pieceValue k := by cases k <;> decide

/-- **loop_no_defenders**: no enemy attacker of the target ⇒ the exchange is over, score unchanged -/
theorem loop_no_defenders (b : Board) (mover : Player) (to : Sq) (fuel : Nat) (st : St)
    (hcol : st.color = mover) (hnone : st.attackers &&& b.occFor mover.other = 0#64) :
    loop b mover to (fuel + 1) st = some st.score := by
  unfold loop
  simp only [hcol]
  have hne : mover.other ≠ mover := by cases mover <;> simp [Player.other]
  by_cases hs : st.score ≤ 0
  · rw [if_pos (Or.inr ⟨hne, hs⟩)]
  · rw [if_neg (by
      intro h
      rcases h with ⟨h1, _⟩ | ⟨_, h2⟩
      · exact hne h1
      · exact hs h2)]
    simp only [hnone, if_true]

/-- **loop_stops_when_ahead**: on move with a non-negative score the mover stands pat -/
theorem loop_stops_when_ahead (b : Board) (mover : Player) (to : Sq) (fuel : Nat) (st : St)
    (hcol : st.color = mover.other) (hs : 0 ≤ st.score) : loop b mover to (fuel + 1) st = some st.score := by
  unfold loop
  have : st.color.other = mover := by rw [hcol]; cases mover <;> rfl
  simp only [this]
  rw [if_pos (Or.inl ⟨trivial, hs⟩)]

/-- **see_undefended**: capturing an undefended man is judged favourable (threshold 0) -/
theorem see_undefended (g : Game) (mv : Move) (moved captured : Piece)
    (hsrc : g.board.pieceAt mv.src = some moved) (hdst : g.board.pieceAt mv.dst = some captured)
    (hnep : mv.isEnPassant = false)
    (hundef : (allAttackersOf g.board mv.dst ((g.board.occupancy ^^^ bb mv.src) ||| bb mv.dst)
        &&& ((g.board.occupancy ^^^ bb mv.src) ||| bb mv.dst)) &&& g.board.occFor g.player.other = 0#64) :
    see g mv 0 = some true := by
  unfold see
  simp only [bind, Option.bind, hsrc, hdst, hnep, Bool.false_eq_true, if_false, pure]
  rw [loop_no_defenders g.board g.player mv.dst 63 _ rfl hundef]
  simp only [Option.some.injEq, decide_eq_true_eq]
  have hv := value_pos captured.kind
  cases hp : mv.promotion with
  | none => simp; omega
  | some pr =>
    simp
    have h1 : pieceValue .pawn ≤ pieceValue pr.piece := by cases pr <;> decide
    omega

/-- after the first capture the mover is at least `victim` ahead: whatever the opponent does, the exchange
ends with a non-negative score (the opponent recaptures once at most, then the mover stands pat) -/
theorem loop_good_trade (b : Board) (mover : Player) (to : Sq) (fuel : Nat) (st : St) (r : Int)
    (hcol : st.color = mover) (hpos : 0 < st.score) (hge : pieceValue st.victim ≤ st.score)
    (h : loop b mover to fuel st = some r) : 0 ≤ r := by
  cases fuel with
  | zero =>
    unfold loop at h
    have := Option.some.inj h
    omega
  | succ n =>
    unfold loop at h
    simp only [hcol] at h
    have hne : mover.other ≠ mover := by cases mover <;> simp [Player.other]
    have hcond : ¬ ((mover.other = mover ∧ st.score ≥ 0) ∨ (mover.other ≠ mover ∧ st.score ≤ 0)) := by
      rintro (⟨h1, _⟩ | ⟨_, h2⟩)
      · exact hne h1
      · omega
    rw [if_neg hcond] at h
    split at h
    · have := Option.some.inj h; omega
    · split at h
      · cases h
      · split at h
        · cases h
        · split at h
          · cases h
          · split at h
            · have := Option.some.inj h; omega
            · -- the opponent recaptures; then the mover is on move with a non-negative score
              cases n with
              | zero =>
                unfold loop at h
                have := Option.some.inj h
                simp only at this
                omega
              | succ k =>
                rw [loop_stops_when_ahead b mover to k _ rfl (by simp only; omega)] at h
                have := Option.some.inj h
                simp only at this
                omega

/-- **see_good_trade**: a plain capture of a man worth at least the capturing one is judged favourable
(threshold 0) whenever `see` answers -/
theorem see_good_trade (g : Game) (mv : Move) (moved captured : Piece) (r : Bool)
    (hsrc : g.board.pieceAt mv.src = some moved) (hdst : g.board.pieceAt mv.dst = some captured)
    (hnep : mv.isEnPassant = false) (hnp : mv.promotion = none)
    (hval : pieceValue moved.kind ≤ pieceValue captured.kind) (h : see g mv 0 = some r) : r = true := by
  unfold see at h
  simp only [bind, Option.bind, hsrc, hdst, hnep, hnp, Bool.false_eq_true, if_false, pure] at h
  cases hl : loop g.board g.player mv.dst 64
      { score := -0 + pieceValue captured.kind, victim := moved.kind,
        occupied := (g.board.occupancy ^^^ bb mv.src) ||| bb mv.dst,
        attackers := allAttackersOf g.board mv.dst ((g.board.occupancy ^^^ bb mv.src) ||| bb mv.dst) &&&
          ((g.board.occupancy ^^^ bb mv.src) ||| bb mv.dst),
        diag := g.board.allDiagSliders &&& ((g.board.occupancy ^^^ bb mv.src) ||| bb mv.dst),
        orth := g.board.allOrthSliders &&& ((g.board.occupancy ^^^ bb mv.src) ||| bb mv.dst),
        color := g.player } with
  | none => rw [hl] at h; cases h
  | some v =>
    rw [hl] at h
    have hv := loop_good_trade g.board g.player mv.dst 64 _ v rfl
      (by simp only; have := value_pos captured.kind; omega) (by simp only; omega) hl
    have := Option.some.inj h
    rw [← this]
    simpa using hv

/-- parity of the first gain: a capture of a man other than a king, or e.p. -/
theorem gain_odd (g : Game) (mv : Move)
    (hcap : ∀ pc, g.board.pieceAt mv.dst = some pc → pc.kind ≠ .king)
    (hep : g.board.pieceAt mv.dst = none → mv.isEnPassant = true) : gain g mv % 200 = 100 := by
  unfold gain
  have hp : ∀ pr : Promo, (pieceValue pr.piece - pieceValue .pawn) % 200 = 0 := by
    intro pr; cases pr <;> decide
  cases hd : g.board.pieceAt mv.dst with
  | none =>
    simp only [hep hd, if_true]
    have : pieceValue .pawn % 200 = 100 := by decide
    cases hpr : mv.promotion with
    | none => simp only; omega
    | some pr => simp only; have := hp pr; omega
  | some pc =>
    have := value_odd pc.kind (hcap pc hd)
    cases hpr : mv.promotion with
    | none => simp only; omega
    | some pr => simp only; have := hp pr; omega

/-- **see_swaplist**: at threshold zero the verdict of `see` is the sign of the full swap list over the successive
capturers — for every board, every capture of a man other than a king (e.p. and promotions included); a king that
makes the first capture is required not to be capturable (as after every legal king move) -/
theorem see_swaplist (g : Game) (mv : Move) (moved : Piece) (occ : BB) (r : Bool)
    (hsrc : g.board.pieceAt mv.src = some moved) (hocc : occAfter g mv = some occ)
    (hcap : ∀ pc, g.board.pieceAt mv.dst = some pc → pc.kind ≠ .king)
    (hep : g.board.pieceAt mv.dst = none → mv.isEnPassant = true)
    (hking : moved.kind = .king →
      (allAttackersOf g.board mv.dst occ &&& occ) &&& g.board.occFor g.player.other = 0#64)
    (h : see g mv 0 = some r) :
    r = decide (0 ≤ gain g mv - swapAbs (capturers g mv moved occ) (pieceValue (placed moved mv))) := by
  obtain ⟨final, hl, hr⟩ := see_unfold g mv moved occ r hsrc hocc h
  have ht := loop_trace g.board g.player mv.dst 64 _ final hl
  have hflag : decide ((initSt g mv moved occ).color.other ≠ g.player) = true := by
    simp only [initSt]; exact decide_eq_true (other_ne g.player)
  rw [hflag] at ht
  have hgood : Good (capturers g mv moved occ) (pieceValue (placed moved mv)) := by
    apply trace_good g.board g.player mv.dst 64 (initSt g mv moved occ)
    intro hk
    apply hking
    simp only [initSt, placed] at hk
    cases hp : mv.promotion with
    | none => rw [hp] at hk; exact hk
    | some pr => rw [hp] at hk; cases pr <;> cases hk
  have := (abs_agree (capturers g mv moved occ) (gain g mv) (pieceValue (placed moved mv)) hgood).1
    (gain_odd g mv hcap hep)
  rw [hr]
  have e : final = loopAbs (capturers g mv moved occ) true (gain g mv) (pieceValue (placed moved mv)) := ht
  rw [e]
  exact decide_eq_decide.2 this

/-- what the generator has checked before it emits a king capture (`generate_king_captures`) -/
theorem kingCaptures_safe (g : Game) (king : Sq) (theirs : BB) (m : Move) (h : m ∈ Gen.kingCaptures g king theirs) :
    m.src = king ∧ m.isEnPassant = false ∧ attackersOf (g.board.removeAt king) g.player m.dst = 0#64 := by
  unfold Gen.kingCaptures at h
  simp only [List.mem_flatMap] at h
  obtain ⟨d, _, hm⟩ := h
  split at hm
  · rename_i hz
    simp only [List.mem_singleton] at hm
    subst hm
    refine ⟨rfl, rfl, ?_⟩
    show attackersOf (g.board.removeAt king) g.player d = 0#64
    simpa using hz
  · cases hm

/-- **king_first_capture**: the hypothesis `hking` of `see_swaplist` holds for every king capture the generator
emits — the test it has made (`kingCaptures_safe`: no attacker of the target on the board with the king lifted) is
the statement that, with the occupancy `see` uses, no man of the opponent attacks the target (`king_capture_safe`) -/
theorem king_first_capture (g : Game) (mv : Move) (occ : BB) (pd : Piece) (hc : Board.Consistent g.board)
    (hsrc : g.board.pieceAt mv.src = some ⟨.king, g.player⟩) (hocc : occAfter g mv = some occ)
    (hnep : mv.isEnPassant = false) (hd : g.board.pieceAt mv.dst = some pd) (hpd : pd.player = g.player.other)
    (hsafe : attackersOf (g.board.removeAt mv.src) g.player mv.dst = 0#64) :
    (allAttackersOf g.board mv.dst occ &&& occ) &&& g.board.occFor g.player.other = 0#64 := by
  unfold occAfter at hocc
  simp only [hnep, Bool.false_eq_true, if_false, Option.some.injEq] at hocc
  subst hocc
  exact king_capture_safe g.board hc g.player mv.src mv.dst pd hsrc hd hpd hsafe

/-- **see_king_capture**: every king capture the generator emits is judged favourable — the generator's own test says
the target is undefended (`kingCaptures_safe`, `king_capture_safe`), and `see_undefended` applies -/
theorem see_king_capture (g : Game) (hc : Board.Consistent g.board) (king : Sq) (theirs : BB) (m : Move) (pd : Piece)
    (hm : m ∈ Gen.kingCaptures g king theirs) (hk : g.board.pieceAt king = some ⟨.king, g.player⟩)
    (hd : g.board.pieceAt m.dst = some pd) (hpd : pd.player = g.player.other) : see g m 0 = some true := by
  obtain ⟨hs, hnep, hsafe⟩ := kingCaptures_safe g king theirs m hm
  subst hs
  exact see_undefended g m ⟨.king, g.player⟩ pd hk hd hnep
    (king_capture_safe g.board hc g.player m.src m.dst pd hk hd hpd hsafe)

/-- **spec_is_swaplist**: the independent mailbox computation the `see` stream compares against (`See.swapValue`)
is the same fold `swapAbs`, over the capturers *it* finds on the mailbox board (`See.seq`) — so `see_swaplist`
and this leave exactly one thing to the stream: that the two sequences agree on tie-free positions -/
theorem spec_is_swaplist (p : Rules.Pos) (m : Move) (moved : Piece) (h : Rules.at' p.board m.src = some moved) :
    (swapValue p m).map (·.1) = some
      (((Rules.at' p.board m.dst).map (fun pc => pieceValue pc.kind) |>.getD 0) +
        (match m.promotion with | some pr => pieceValue pr.piece - pieceValue .pawn | none => 0) -
        swapAbs (seq m.dst 40
          (Rules.setSq (Rules.setSq p.board m.src none) m.dst
            (some ⟨(match m.promotion with | some pr => pr.piece | none => moved.kind), p.player⟩)) p.player.other)
          (pieceValue (match m.promotion with | some pr => pr.piece | none => moved.kind))) := by
  unfold swapValue
  rw [h]
  simp only [Option.map_some, Option.some.injEq]
  rw [← swap_is_swapAbs]
  cases m.promotion <;> rfl

/-- why the parity matters: on a sequence with an even value the engine's stop test (`≤` for the opponent) and the
swap list part ways — N takes P (+100), the opponent's 100-point man retakes the knight worth 200 in this imaginary
table … here simply: running score 0 with the opponent to capture a man worth 300 for free -/
example : (0 ≤ loopAbs [100] true 0 300) ∧ ¬ (0 ≤ (0 : Int) - swapAbs [100] 300) := by decide

/-- non-vacuity of `abs_agree`: pawn takes pawn, pawn retakes, knight retakes, nothing else — and a losing line:
queen takes a pawn defended by a pawn -/
example : Good [100, 300] 100 ∧ (0 ≤ loopAbs [100, 300] true 100 100) ∧ (0 ≤ (100 : Int) - swapAbs [100, 300] 100) :=
  ⟨⟨by decide, by decide, trivial⟩, by decide, by decide⟩
example : Good [100] 900 ∧ ¬ (0 ≤ loopAbs [100] true 100 900) ∧ ¬ (0 ≤ (100 : Int) - swapAbs [100] 900) :=
  ⟨⟨by decide, trivial⟩, by decide, by decide⟩

example : pieceValue .queen = 900 := by decide

/-- the slider tables of the engine are the ray walks (`Props.C07`) -/
theorem sliderTables : SliderTables :=
  ⟨Tcheran.Props.C07.rook_table_geometric, Tcheran.Props.C07.bishop_table_geometric⟩

/-- **see_mirror**: invariance under colour swap + board flip, every position, capture and threshold -/
theorem see_mirror (c : Cfg) (g : Game) (mv : Move) (thr : Int) :
    see (Game.mirror c g) mv.mirror thr = see g mv thr :=
  Tcheran.See.see_mirror sliderTables c g mv thr

/-- the choice among equally valued attackers is colour-relative -/
theorem tie_break_mirror (color : Player) (X : BB) :
    pickSquare color.other (BB.flipV X) = (pickSquare color X).map Sq.flip :=
  pickSquare_mirror color X

/-- non-vacuity / the defect that was repaired: choosing by raw square index does **not** commute with the
mirror (two candidates on a2 and c4: White takes a2; a raw-index choice for Black in the mirrored position
takes c5, the image of c4, instead of a7) -/
example : BB.lsbSq? (BB.flipV (bb ⟨8, by decide⟩ ||| bb ⟨26, by decide⟩)) ≠
    (BB.lsbSq? (bb ⟨8, by decide⟩ ||| bb ⟨26, by decide⟩)).map Sq.flip := by decide +kernel

end Tcheran.Props.C20
#print axioms Tcheran.Props.C20.values
#print axioms Tcheran.Props.C20.values_ordered
#print axioms Tcheran.Props.C20.value_pos
#print axioms Tcheran.Props.C20.loop_no_defenders
#print axioms Tcheran.Props.C20.loop_stops_when_ahead
#print axioms Tcheran.Props.C20.see_undefended
#print axioms Tcheran.Props.C20.loop_good_trade
#print axioms Tcheran.Props.C20.see_good_trade
#print axioms Tcheran.Props.C20.sliderTables
#print axioms Tcheran.Props.C20.see_mirror
#print axioms Tcheran.Props.C20.tie_break_mirror
#print axioms Tcheran.Props.C20.gain_odd
#print axioms Tcheran.Props.C20.see_swaplist
#print axioms Tcheran.Props.C20.spec_is_swaplist
#print axioms Tcheran.Props.C20.kingCaptures_safe
#print axioms Tcheran.Props.C20.king_first_capture
#print axioms Tcheran.Props.C20.see_king_capture
