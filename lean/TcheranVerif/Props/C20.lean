import TcheranVerif.Model.Search
namespace Tcheran.Props.C20
theorem placeholder : True := trivial
end Tcheran.Props.C20
#print axioms Tcheran.Props.C20.placeholder
