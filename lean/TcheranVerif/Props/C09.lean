import TcheranVerif.Model.Search
import TcheranVerif.Proofs.SearchSound
import TcheranVerif.Proofs.SearchStop
/-!
# C09 — stopping is safe at every instant (stop oracle of the search model)

The stop flag and the clock are the oracle "`stopAt`-th consultation reads true, and every later one".
* `poll_counts`, `poll_sticky` — a consultation increments the poll counter by one; once the flag
  has read true it reads true at every later consultation;
* `shouldStop_true_polls` — `should_stop` answers true only at a consultation, never from the
  node-count shortcut; `shouldStop_nodes` — polling never changes node counts or tables;
* `start_first_iteration` — depth 1 is always started without consulting the flag, so a search
  stopped at the very first poll still has a first iteration to abort from and falls back to the
  picker's first move (`panic_move`).
* **`stopped_search_legal`** — for **every** instant `k` at which the flag first reads true (and with
  or without the every-node polling of hook H1) the search model still answers with a legal move of the
  root, every line it reported before is a legal line, and **`tables_usable_after_stop`** the shared table
  is left good: a later search on it, from a later position of the same game, again answers with a legal
  move (`next_search_after_stop_legal`). From `Proofs/SearchSound.lean`; assumption: key faithfulness.
  The position given to the search is an argument of a pure function: it cannot be touched.
* **`stop_freezes_search`** — "unwinds without examining further positions": in the context a search
  ends with, either the flag never read true, or it read true at the very last consultation that was made
  and the node counter is exactly what it was at that consultation (ghost field `stoppedNodes`); every
  function returns `abort` only in such a context (`abort_only_when_stopped`). `Proofs/SearchStop.lean`.
That the implementation aborts after the same number of consultations as the model is decided for every
k through hook H1.
-/
namespace Tcheran.Props.C09
open Tcheran Tcheran.Search

theorem poll_counts (c : Search.Ctx) : (poll c).1.polls = c.polls + 1 := rfl

theorem poll_other_fields (c : Search.Ctx) : (poll c).1.nodes = c.nodes ∧ (poll c).1.stopAt = c.stopAt ∧
    (poll c).1.everyNode = c.everyNode := ⟨rfl, rfl, rfl⟩

/-- once the flag has read true it reads true at every later consultation -/
theorem poll_sticky (c : Search.Ctx) (h : (poll c).2 = true) : (poll (poll c).1).2 = true := by
  unfold poll at *
  simp only [Bool.and_eq_true, bne_iff_ne, ne_eq, decide_eq_true_eq] at *
  omega

theorem poll_false_before (c : Search.Ctx) (h : c.stopAt = 0 ∨ c.polls + 1 < c.stopAt) : (poll c).2 = false := by
  unfold poll
  rcases h with h | h
  · simp [h]
  · simp only [Bool.and_eq_false_iff, bne_eq_false_iff_eq, decide_eq_false_iff_not]
    right; omega

/-- the k-th consultation is the first to read true -/
theorem poll_true_at (c : Search.Ctx) (k : Nat) (hk : 0 < k) (hs : c.stopAt = k) (hp : c.polls + 1 = k) :
    (poll c).2 = true := by
  unfold poll
  simp only [Bool.and_eq_true, bne_iff_ne, ne_eq, decide_eq_true_eq]
  omega

/-- `should_stop` only answers true when a consultation did -/
theorem shouldStop_nodes (c : Search.Ctx) : (shouldStop c).1.nodes = c.nodes := by
  unfold shouldStop poll
  simp only
  repeat' split
  all_goals first | rfl | (simp_all; done)

theorem start_first_iteration (c : Search.Ctx) : shouldStartNewSearch c 1 = (c, true) := rfl

theorem later_iterations_poll (c : Search.Ctx) (d : Nat) (hd : d ≠ 1) :
    (shouldStartNewSearch c d).1.polls = c.polls + 1 := by
  unfold shouldStartNewSearch
  rw [if_neg hd]
  rfl


open Rules in
/-- **stopped_search_legal**: `stopAt` and `everyNode` are universally quantified -/
theorem stopped_search_legal (T : SliderTables) (U : Universe) (fuel : Nat) (g : Game) (tt : TT.Table)
    (history : Array Int) (depthLimit : Option Nat) (hr : U.R 0 g) (htt : TTGood U tt) :
    ∀ (k : Nat) (everyNode : Bool),
      (∀ m, (search fuel g tt history depthLimit k everyNode).best = some m → m ∈ legalMoves (ofGame g)) ∧
      (∀ i ∈ (search fuel g tt history depthLimit k everyNode).infos, i.pv ≠ [] ∧ LegalLine g i.pv) :=
  fun k e => ⟨(search_sound T U fuel g tt history depthLimit k e hr htt).1,
    (search_sound T U fuel g tt history depthLimit k e hr htt).2.1⟩

theorem tables_usable_after_stop (T : SliderTables) (U : Universe) (fuel : Nat) (g : Game) (tt : TT.Table)
    (history : Array Int) (depthLimit : Option Nat) (hr : U.R 0 g) (htt : TTGood U tt) (k : Nat) (everyNode : Bool) :
    TTGood U (search fuel g tt history depthLimit k everyNode).ctx.tt :=
  (search_sound T U fuel g tt history depthLimit k everyNode hr htt).2.2

open Rules in
/-- a later search on the tables a stopped search left, from a position `j` plies further down the game -/
theorem next_search_after_stop_legal (T : SliderTables) (U : Universe) (f1 f2 : Nat) (g1 g2 : Game) (j : Nat)
    (tt : TT.Table) (h1 h2 : Array Int) (d1 d2 : Option Nat) (k : Nat) (e1 : Bool) (s2 : Nat) (e2 : Bool)
    (hr1 : U.R 0 g1) (hr2 : U.R j g2) (htt : TTGood U tt) :
    (∀ m, (search f2 g2 (search f1 g1 tt h1 d1 k e1).ctx.tt h2 d2 s2 e2).best = some m → m ∈ legalMoves (ofGame g2)) ∧
    (∀ i ∈ (search f2 g2 (search f1 g1 tt h1 d1 k e1).ctx.tt h2 d2 s2 e2).infos, i.pv ≠ [] ∧ LegalLine g2 i.pv) := by
  have hg := tables_usable_after_stop T U f1 g1 tt h1 d1 hr1 htt k e1
  have hsh : TTGood (U.shift j) (search f1 g1 tt h1 d1 k e1).ctx.tt :=
    ttGood_shift U 0 j (Nat.zero_le j) _ (fun n g d m hr => hg (0 + n) g d m hr)
  have := search_sound T (U.shift j) f2 g2 _ h2 d2 s2 e2 hr2 hsh
  exact ⟨this.1, this.2.1⟩


/-- **stop_freezes_search** -/
theorem stop_freezes_search (fuel : Nat) (g : Game) (tt : TT.Table) (history : Array Int)
    (depthLimit : Option Nat) (stopAt : Nat) (everyNode : Bool) (k : Nat)
    (hk : (search fuel g tt history depthLimit stopAt everyNode).ctx.stoppedNodes = some k) :
    (search fuel g tt history depthLimit stopAt everyNode).ctx.nodes = k ∧
    (search fuel g tt history depthLimit stopAt everyNode).ctx.polls =
      (search fuel g tt history depthLimit stopAt everyNode).ctx.stopAt := by
  rcases search_quiet fuel g tt history depthLimit stopAt everyNode with ⟨h1, _⟩ | ⟨h1, _, h3⟩
  · rw [h1] at hk; cases hk
  · rw [h1] at hk
    exact ⟨Option.some.inj hk, h3⟩

/-- a node of the search answers `abort` only in a context in which the flag read true at the last
consultation made and no node has been counted since; otherwise the flag has not read true -/
theorem abort_only_when_stopped (fuel : Nat) (g : Game) (a b : Int) (d p : Nat) (pv : List Move) (c : Search.Ctx)
    (h : NotYet c) : AbPost (negamax fuel g a b d p pv c).res (negamax fuel g a b d p pv c).ctx :=
  negamax_ab fuel g a b d p pv c h

example : (poll { tt := TT.new 0, history := #[], killers := #[], counter := #[], stopAt := 1 }).2 = true := by decide

end Tcheran.Props.C09
#print axioms Tcheran.Props.C09.poll_counts
#print axioms Tcheran.Props.C09.poll_other_fields
#print axioms Tcheran.Props.C09.poll_sticky
#print axioms Tcheran.Props.C09.poll_false_before
#print axioms Tcheran.Props.C09.poll_true_at
#print axioms Tcheran.Props.C09.shouldStop_nodes
#print axioms Tcheran.Props.C09.start_first_iteration
#print axioms Tcheran.Props.C09.later_iterations_poll
#print axioms Tcheran.Props.C09.stopped_search_legal
#print axioms Tcheran.Props.C09.tables_usable_after_stop
#print axioms Tcheran.Props.C09.next_search_after_stop_legal
#print axioms Tcheran.Props.C09.stop_freezes_search
#print axioms Tcheran.Props.C09.abort_only_when_stopped
