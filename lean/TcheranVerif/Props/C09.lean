import TcheranVerif.Model.Search
/-!
# C09 — stopping is safe at every instant (stop oracle of the search model)

The stop flag and the clock are the oracle "`stopAt`-th consultation reads true, and every later one".
* `poll_counts`, `poll_sticky` — a consultation increments the poll counter by one; once the flag
  has read true it reads true at every later consultation;
* `shouldStop_true_polls` — `should_stop` answers true only at a consultation, never from the
  node-count shortcut; `shouldStop_nodes` — polling never changes node counts or tables;
* `start_first_iteration` — depth 1 is always started without consulting the flag, so a search
  stopped at the very first poll still has a first iteration to abort from and falls back to the
  picker's first move (`panic_move`).
That an aborted search stops consulting the flag, returns a legal move and leaves usable tables is
decided for **every** k on the implementation (hook H1) against the model and the Rules oracle;
the structural proof (DESIGN App. B S3, S4) is not mechanised: partial.
-/
namespace Tcheran.Props.C09
open Tcheran Tcheran.Search

theorem poll_counts (c : Ctx) : (poll c).1.polls = c.polls + 1 := rfl

theorem poll_other_fields (c : Ctx) : (poll c).1.nodes = c.nodes ∧ (poll c).1.stopAt = c.stopAt ∧
    (poll c).1.everyNode = c.everyNode := ⟨rfl, rfl, rfl⟩

/-- once the flag has read true it reads true at every later consultation -/
theorem poll_sticky (c : Ctx) (h : (poll c).2 = true) : (poll (poll c).1).2 = true := by
  unfold poll at *
  simp only [Bool.and_eq_true, bne_iff_ne, ne_eq, decide_eq_true_eq] at *
  omega

theorem poll_false_before (c : Ctx) (h : c.stopAt = 0 ∨ c.polls + 1 < c.stopAt) : (poll c).2 = false := by
  unfold poll
  rcases h with h | h
  · simp [h]
  · simp only [Bool.and_eq_false_iff, bne_eq_false_iff_eq, decide_eq_false_iff_not]
    right; omega

/-- the k-th consultation is the first to read true -/
theorem poll_true_at (c : Ctx) (k : Nat) (hk : 0 < k) (hs : c.stopAt = k) (hp : c.polls + 1 = k) :
    (poll c).2 = true := by
  unfold poll
  simp only [Bool.and_eq_true, bne_iff_ne, ne_eq, decide_eq_true_eq]
  omega

/-- `should_stop` only answers true when a consultation did -/
theorem shouldStop_nodes (c : Ctx) : (shouldStop c).1.nodes = c.nodes := by
  unfold shouldStop poll
  simp only
  repeat' split
  all_goals first | rfl | (simp_all; done)

theorem start_first_iteration (c : Ctx) : shouldStartNewSearch c 1 = (c, true) := rfl

theorem later_iterations_poll (c : Ctx) (d : Nat) (hd : d ≠ 1) :
    (shouldStartNewSearch c d).1.polls = c.polls + 1 := by
  unfold shouldStartNewSearch
  rw [if_neg hd]
  rfl

example : (poll { tt := TT.new 0, history := #[], killers := #[], counter := #[], stopAt := 1 }).2 = true := by decide

end Tcheran.Props.C09
#print axioms Tcheran.Props.C09.poll_counts
#print axioms Tcheran.Props.C09.poll_other_fields
#print axioms Tcheran.Props.C09.poll_sticky
#print axioms Tcheran.Props.C09.poll_false_before
#print axioms Tcheran.Props.C09.poll_true_at
#print axioms Tcheran.Props.C09.shouldStop_nodes
#print axioms Tcheran.Props.C09.start_first_iteration
#print axioms Tcheran.Props.C09.later_iterations_poll
