import TcheranVerif.Model.Search
namespace Tcheran.Props.C09
theorem placeholder : True := trivial
end Tcheran.Props.C09
#print axioms Tcheran.Props.C09.placeholder
