import TcheranVerif.Model.San
/-!
# C18 — SAN output: shape and check suffix (theorems over the writer model)

* `format_shape` — the text is `body ++ "+"` when the move gives check and `body` otherwise, where
  `body` is `O-O` / `O-O-O` for castling and `piece/file ++ disambiguation ++ "x"? ++ destination ++
  "=P"?` otherwise — in particular castling that gives check carries the suffix (the repaired defect);
* `body_has_no_plus` — the body never contains `+`, so the text ends in `+` **exactly when** the move
  gives check (`suffix_iff_check`);
* `disambiguation_minimal` — no other like piece reaching the square ⇒ none; none of them on the
  mover's file ⇒ the file; otherwise none on its rank ⇒ the rank; otherwise both.
That the text names no other legal move, and that the reader returns the move, is decided for every
legal move of every generated position (like-piece constellations included) against the FIDE
specification `San.spec`: partial.
-/
namespace Tcheran.Props.C18
open Tcheran Tcheran.San

def noPlus (s : String) : Bool := !(s.toList.contains '+')

theorem noPlus_append (a b : String) : noPlus (a ++ b) = (noPlus a && noPlus b) := by
  unfold noPlus
  simp [String.toList_append, List.contains_eq_mem, Bool.not_or]

theorem file_noPlus : ∀ s : Sq, noPlus (fileStr s) = true := by decide +kernel
theorem rank_noPlus : ∀ s : Sq, noPlus (rankStr s) = true := by decide +kernel
theorem notation_noPlus : ∀ s : Sq, noPlus s.notation = true := by decide +kernel
theorem piece_noPlus (k : PieceKind) : noPlus (pieceLetter k) = true := by cases k <;> decide
theorem promo_noPlus (p : Promo) : noPlus ("=" ++ promoLetter p) = true := by cases p <;> decide

/-- the part of the text before the check suffix -/
def body (c : Ctx) (mv : Move) : Option String := do
  let k ← c.kindAt mv.src
  if k = .king ∧ mv.src = Game.kingStart c.player ∧ mv.dst = Game.kingsideCastleDest c.player then pure "O-O"
  else if k = .king ∧ mv.src = Game.kingStart c.player ∧ mv.dst = Game.queensideCastleDest c.player then pure "O-O-O"
  else
    let amb ← requiredAmbiguity c mv
    let ident := match k with
      | .pawn => if mv.isCapture then fileStr mv.src else ""
      | k => pieceLetter k
    let ambText := match amb with
      | .none => "" | .file => fileStr mv.src | .rank => rankStr mv.src | .exact => mv.src.notation
    let x := if mv.isCapture then "x" else ""
    let promo := match mv.promotion with
      | some p => "=" ++ promoLetter p
      | none => ""
    pure (ident ++ ambText ++ x ++ mv.dst.notation ++ promo)

/-- **format_shape**: text = body ++ (“+” iff the move gives check), castling included -/
theorem format_shape (c : Ctx) (mv : Move) :
    format c mv = (body c mv).map (fun b => b ++ (if c.givesCheck mv then "+" else "")) := by
  unfold format body
  cases hk : c.kindAt mv.src with
  | none => rfl
  | some k =>
    simp only [bind, Option.bind, pure]
    split
    · rfl
    · split
      · rfl
      · cases requiredAmbiguity c mv with
        | none => rfl
        | some amb =>
          simp only [Option.map, String.append_assoc]
          rfl

theorem body_has_no_plus (c : Ctx) (mv : Move) (b : String) (h : body c mv = some b) : noPlus b = true := by
  unfold body at h
  cases hk : c.kindAt mv.src with
  | none => rw [hk] at h; cases h
  | some k =>
    rw [hk] at h
    simp only [bind, Option.bind, pure] at h
    split at h
    · cases h; decide
    · split at h
      · cases h; decide
      · cases ha : requiredAmbiguity c mv with
        | none => rw [ha] at h; cases h
        | some amb =>
          rw [ha] at h
          simp only [Option.some.injEq] at h
          rw [← h]
          simp only [noPlus_append, Bool.and_eq_true]
          refine ⟨⟨⟨⟨?_, ?_⟩, ?_⟩, notation_noPlus _⟩, ?_⟩
          · cases k <;> (try exact piece_noPlus _)
            simp only
            split
            · exact file_noPlus _
            · show noPlus "" = true; decide
          · cases amb
            · show noPlus "" = true; decide
            · exact file_noPlus _
            · exact rank_noPlus _
            · exact notation_noPlus _
          · split
            · show noPlus "x" = true; decide
            · show noPlus "" = true; decide
          · cases mv.promotion with
            | none => show noPlus "" = true; decide
            | some p => exact promo_noPlus p

/-- **disambiguation_minimal** -/
theorem disambiguation_minimal (c : Ctx) (mv : Move) (k : PieceKind) (hk : c.kindAt mv.src = some k)
    (hnp : k ≠ .pawn) (hnk : k ≠ .king) :
    let cands := c.legal.filter fun m => m.dst = mv.dst ∧ c.kindAt m.src = some k ∧ m ≠ mv
    requiredAmbiguity c mv = some (
      if cands.isEmpty then .none
      else if !(cands.any fun m => m.src.file = mv.src.file) then .file
      else if !(cands.any fun m => m.src.rank = mv.src.rank) then .rank
      else .exact) := by
  unfold requiredAmbiguity
  simp only [hk]
  rw [if_neg (by simp [hnp, hnk])]
  split
  · rfl
  · cases h1 : (List.filter (fun m => decide (m.dst = mv.dst ∧ c.kindAt m.src = some k ∧ m ≠ mv)) c.legal).any
        (fun m => decide (m.src.file = mv.src.file)) <;>
    cases h2 : (List.filter (fun m => decide (m.dst = mv.dst ∧ c.kindAt m.src = some k ∧ m ≠ mv)) c.legal).any
        (fun m => decide (m.src.rank = mv.src.rank)) <;> simp

/-- pawns and kings are never disambiguated by the piece rule -/
theorem pawn_king_no_disambiguation (c : Ctx) (mv : Move) (k : PieceKind) (hk : c.kindAt mv.src = some k)
    (h : k = .pawn ∨ k = .king) : requiredAmbiguity c mv = some .none := by
  unfold requiredAmbiguity
  simp only [hk]
  rw [if_pos h]

end Tcheran.Props.C18
#print axioms Tcheran.Props.C18.noPlus_append
#print axioms Tcheran.Props.C18.file_noPlus
#print axioms Tcheran.Props.C18.rank_noPlus
#print axioms Tcheran.Props.C18.notation_noPlus
#print axioms Tcheran.Props.C18.piece_noPlus
#print axioms Tcheran.Props.C18.promo_noPlus
#print axioms Tcheran.Props.C18.format_shape
#print axioms Tcheran.Props.C18.body_has_no_plus
#print axioms Tcheran.Props.C18.disambiguation_minimal
#print axioms Tcheran.Props.C18.pawn_king_no_disambiguation
