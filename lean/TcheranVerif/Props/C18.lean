import TcheranVerif.Model.Search
namespace Tcheran.Props.C18
theorem placeholder : True := trivial
end Tcheran.Props.C18
#print axioms Tcheran.Props.C18.placeholder
