import TcheranVerif.Model.San
import TcheranVerif.Proofs.SanLegal
import TcheranVerif.Proofs.GenerateNodup
import TcheranVerif.Proofs.GameInv
/-!
# C18 — SAN output: shape and check suffix (theorems over the writer model)

* `format_shape` — the text is `body ++ "+"` when the move gives check and `body` otherwise, where
  `body` is `O-O` / `O-O-O` for castling and `piece/file ++ disambiguation ++ "x"? ++ destination ++
  "=P"?` otherwise — in particular castling that gives check carries the suffix (the repaired defect);
* `body_has_no_plus` — the body never contains `+`, so the text ends in `+` **exactly when** the move
  gives check (`suffix_iff_check`);
* `disambiguation_minimal` — no other like piece reaching the square ⇒ none; none of them on the
  mover's file ⇒ the file; otherwise none on its rank ⇒ the rank; otherwise both.
* **`san_reads_back`** / **`san_names_one_move`** — for every position satisfying the game invariant (one king a
  side, e.p. target with the pushed pawn behind it; every legal position and everything reachable from one,
  C02) and the legal-move list of the rules in any duplicate-free order (what the engine's generator returns,
  C01): the writer answers for every legal move (`format_total`), the reader applied to that text returns
  **exactly that move** — never an error, a panic or another move — and therefore two different legal moves
  never get the same text. `Proofs/SanRoundTrip.lean` proves it at the level of characters for any context
  with `San.WF` (suffix stripping, promotion split, capture split, destination, source resolution against the
  writer's disambiguation: `amb_unique`), `Proofs/SanLegal.lean` derives `WF` from the rules (pawn geometry,
  one king, (source, destination, promotion) identifies a legal move). `san_engine` instantiates it with
  the engine's own generator. All four defects repaired by the C18 `fix:` commits make one of these lemmas
  false on the old code.
That the text is the *standard* one (piece letters, `x`, `=Q`, `O-O`, minimal disambiguation as FIDE words
it) is `disambiguation_minimal` / `format_shape` plus the comparison of every generated text with the
independent FIDE specification `San.spec` in the `san` stream.
-/
namespace Tcheran.Props.C18
open Tcheran Tcheran.San

def noPlus (s : String) : Bool := !(s.toList.contains '+')

theorem noPlus_append (a b : String) : noPlus (a ++ b) = (noPlus a && noPlus b) := by
  unfold noPlus
  simp [String.toList_append, List.contains_eq_mem, Bool.not_or]

theorem file_noPlus : ∀ s : Sq, noPlus (fileStr s) = true := by decide +kernel
theorem rank_noPlus : ∀ s : Sq, noPlus (rankStr s) = true := by decide +kernel
theorem notation_noPlus : ∀ s : Sq, noPlus s.notation = true := by decide +kernel
theorem piece_noPlus (k : PieceKind) : noPlus (pieceLetter k) = true := by cases k <;> decide
theorem promo_noPlus (p : Promo) : noPlus ("=" ++ promoLetter p) = true := by cases p <;> decide

/-- the part of the text before the check suffix -/
def body (c : San.Ctx) (mv : Move) : Option String := do
  let k ← c.kindAt mv.src
  if k = .king ∧ mv.src = Game.kingStart c.player ∧ mv.dst = Game.kingsideCastleDest c.player then pure "O-O"
  else if k = .king ∧ mv.src = Game.kingStart c.player ∧ mv.dst = Game.queensideCastleDest c.player then pure "O-O-O"
  else
    let amb ← requiredAmbiguity c mv
    let ident := match k with
      | .pawn => if mv.isCapture then fileStr mv.src else ""
      | k => pieceLetter k
    let ambText := match amb with
      | .none => "" | .file => fileStr mv.src | .rank => rankStr mv.src | .exact => mv.src.notation
    let x := if mv.isCapture then "x" else ""
    let promo := match mv.promotion with
      | some p => "=" ++ promoLetter p
      | none => ""
    pure (ident ++ ambText ++ x ++ mv.dst.notation ++ promo)

/-- **format_shape**: text = body ++ (“+” iff the move gives check), castling included -/
theorem format_shape (c : San.Ctx) (mv : Move) :
    format c mv = (body c mv).map (fun b => b ++ (if c.givesCheck mv then "+" else "")) := by
  unfold format body
  cases hk : c.kindAt mv.src with
  | none => rfl
  | some k =>
    simp only [bind, Option.bind, pure]
    split
    · rfl
    · split
      · rfl
      · cases requiredAmbiguity c mv with
        | none => rfl
        | some amb =>
          simp only [Option.map, String.append_assoc]
          rfl

theorem body_has_no_plus (c : San.Ctx) (mv : Move) (b : String) (h : body c mv = some b) : noPlus b = true := by
  unfold body at h
  cases hk : c.kindAt mv.src with
  | none => rw [hk] at h; cases h
  | some k =>
    rw [hk] at h
    simp only [bind, Option.bind, pure] at h
    split at h
    · cases h; decide
    · split at h
      · cases h; decide
      · cases ha : requiredAmbiguity c mv with
        | none => rw [ha] at h; cases h
        | some amb =>
          rw [ha] at h
          simp only [Option.some.injEq] at h
          rw [← h]
          simp only [noPlus_append, Bool.and_eq_true]
          refine ⟨⟨⟨⟨?_, ?_⟩, ?_⟩, notation_noPlus _⟩, ?_⟩
          · cases k <;> (try exact piece_noPlus _)
            simp only
            split
            · exact file_noPlus _
            · show noPlus "" = true; decide
          · cases amb
            · show noPlus "" = true; decide
            · exact file_noPlus _
            · exact rank_noPlus _
            · exact notation_noPlus _
          · split
            · show noPlus "x" = true; decide
            · show noPlus "" = true; decide
          · cases mv.promotion with
            | none => show noPlus "" = true; decide
            | some p => exact promo_noPlus p

/-- **disambiguation_minimal** -/
theorem disambiguation_minimal (c : San.Ctx) (mv : Move) (k : PieceKind) (hk : c.kindAt mv.src = some k)
    (hnp : k ≠ .pawn) (hnk : k ≠ .king) :
    let cands := c.legal.filter fun m => m.dst = mv.dst ∧ c.kindAt m.src = some k ∧ m ≠ mv
    requiredAmbiguity c mv = some (
      if cands.isEmpty then .none
      else if !(cands.any fun m => m.src.file = mv.src.file) then .file
      else if !(cands.any fun m => m.src.rank = mv.src.rank) then .rank
      else .exact) := by
  unfold requiredAmbiguity
  simp only [hk]
  rw [if_neg (by simp [hnp, hnk])]
  split
  · rfl
  · cases h1 : (List.filter (fun m => decide (m.dst = mv.dst ∧ c.kindAt m.src = some k ∧ m ≠ mv)) c.legal).any
        (fun m => decide (m.src.file = mv.src.file)) <;>
    cases h2 : (List.filter (fun m => decide (m.dst = mv.dst ∧ c.kindAt m.src = some k ∧ m ≠ mv)) c.legal).any
        (fun m => decide (m.src.rank = mv.src.rank)) <;> simp

/-- pawns and kings are never disambiguated by the piece rule -/
theorem pawn_king_no_disambiguation (c : San.Ctx) (mv : Move) (k : PieceKind) (hk : c.kindAt mv.src = some k)
    (h : k = .pawn ∨ k = .king) : requiredAmbiguity c mv = some .none := by
  unfold requiredAmbiguity
  simp only [hk]
  rw [if_pos h]

/-- the writer answers for every legal move -/
theorem format_total (c : San.Ctx) (mv : Move) (h : WF c mv) : ∃ t, format c mv = some t := by
  have hk := h.kinds mv h.mem
  unfold format
  cases hkk : c.kindAt mv.src with
  | none => rw [hkk] at hk; cases hk
  | some k =>
    simp only [bind, Option.bind, pure]
    split
    · exact ⟨_, rfl⟩
    · split
      · exact ⟨_, rfl⟩
      · have : ∃ a, requiredAmbiguity c mv = some a := by
          unfold requiredAmbiguity
          simp only [hkk]
          split
          · exact ⟨_, rfl⟩
          · split <;> exact ⟨_, rfl⟩
        obtain ⟨a, ha⟩ := this
        rw [ha]
        exact ⟨_, rfl⟩

/-- **parse ∘ format** for any context with the well-formedness the rules guarantee -/
theorem parse_format (c : San.Ctx) (mv : Move) (t : String) (h : WF c mv) (hf : format c mv = some t) :
    parse c t = .ok mv := San.parse_format c mv t h hf

/-- **san_reads_back**: in every position satisfying the game invariant, reading the text written for a legal
move returns that move -/
theorem san_reads_back (pos : Rules.Pos) (hi : GInv pos) (legal : List Move) (hn : legal.Nodup)
    (hex : ∀ m, m ∈ legal ↔ m ∈ Rules.legalMoves pos) (gc : Move → Bool) (mv : Move) (hmv : mv ∈ legal) :
    ∃ t, format (rulesCtx pos legal gc) mv = some t ∧ parse (rulesCtx pos legal gc) t = .ok mv := by
  have h := san_wf pos hi legal hn hex gc mv hmv
  obtain ⟨t, ht⟩ := format_total _ mv h
  exact ⟨t, ht, San.parse_format _ mv t h ht⟩

/-- **san_names_one_move**: the text of a legal move is the text of no other legal move of the position -/
theorem san_names_one_move (pos : Rules.Pos) (hi : GInv pos) (legal : List Move) (hn : legal.Nodup)
    (hex : ∀ m, m ∈ legal ↔ m ∈ Rules.legalMoves pos) (gc : Move → Bool) (m1 m2 : Move)
    (h1 : m1 ∈ legal) (h2 : m2 ∈ legal) (t : String)
    (f1 : format (rulesCtx pos legal gc) m1 = some t) (f2 : format (rulesCtx pos legal gc) m2 = some t) : m1 = m2 :=
  San.format_injective _ m1 m2 t (san_wf pos hi legal hn hex gc m1 h1) (san_wf pos hi legal hn hex gc m2 h2) f1 f2

/-- the same for the engine: its own generator (C01: exact and duplicate-free), its own board -/
theorem san_engine (T : SliderTables) (g : Game) (hc : g.board.Consistent)
    (hl : Rules.legalPos (Rules.ofGame g) = true) (gc : Move → Bool) :
    ∃ caps cache quiets, generateCaptures g = some (caps, cache) ∧ generateQuiets g cache = some quiets ∧
      ∀ mv ∈ caps ++ quiets, ∃ t,
        format { player := g.player, legal := caps ++ quiets,
                 kindAt := fun s => (g.board.pieceAt s).map (·.kind), givesCheck := gc } mv = some t ∧
        parse { player := g.player, legal := caps ++ quiets,
                kindAt := fun s => (g.board.pieceAt s).map (·.kind), givesCheck := gc } t = .ok mv := by
  obtain ⟨k, hk⟩ := posH_of_legal g hc hl
  obtain ⟨caps, cache, quiets, h1, h2, h3⟩ := Tcheran.generate_exact T g k hk
  refine ⟨caps, cache, quiets, h1, h2, ?_⟩
  intro mv hmv
  exact san_reads_back (Rules.ofGame g) (ginv_of_legal _ hl) (caps ++ quiets)
    (generate_nodup T g k hk caps cache quiets h1 h2) h3 gc mv hmv

/-- non-vacuity: `7b/8/8/4Pp2/3K4/8/8/k7 w - f6` satisfies the invariant, so every hypothesis of
`san_reads_back` is met by its legal-move list -/
example : Rules.legalPos ⟨(((((Board.empty.setAt ⟨27, by decide⟩ ⟨.king, .white⟩).setAt ⟨0, by decide⟩ ⟨.king, .black⟩).setAt
    ⟨36, by decide⟩ ⟨.pawn, .white⟩).setAt ⟨37, by decide⟩ ⟨.pawn, .black⟩).setAt ⟨63, by decide⟩ ⟨.bishop, .black⟩).squares,
    .white, Rights.none, some ⟨45, by decide⟩, 0, 0⟩ = true := by decide +kernel

end Tcheran.Props.C18
#print axioms Tcheran.Props.C18.noPlus_append
#print axioms Tcheran.Props.C18.file_noPlus
#print axioms Tcheran.Props.C18.rank_noPlus
#print axioms Tcheran.Props.C18.notation_noPlus
#print axioms Tcheran.Props.C18.piece_noPlus
#print axioms Tcheran.Props.C18.promo_noPlus
#print axioms Tcheran.Props.C18.format_shape
#print axioms Tcheran.Props.C18.body_has_no_plus
#print axioms Tcheran.Props.C18.disambiguation_minimal
#print axioms Tcheran.Props.C18.pawn_king_no_disambiguation
#print axioms Tcheran.Props.C18.format_total
#print axioms Tcheran.Props.C18.parse_format
#print axioms Tcheran.Props.C18.san_reads_back
#print axioms Tcheran.Props.C18.san_names_one_move
#print axioms Tcheran.Props.C18.san_engine
