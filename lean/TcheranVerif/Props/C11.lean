import TcheranVerif.Model.Draw
import TcheranVerif.Proofs.Bits
import TcheranVerif.Proofs.LegalPos
import TcheranVerif.Proofs.Repetition
/-!
# C11 — repetition, fifty-move and dead-material draws

* `repeated_exact` — the engine compares the current key with the keys of the last
  `halfmove_clock` history entries; if those entries record, in order, the keys of the earlier
  positions of the game and the key is injective on the positions involved (the 64-bit assumption,
  explicit), this is exactly "an identical position (placement, side, rights, e.p. target) occurred
  since the last capture or pawn move". Works for FEN starts with a non-zero clock and no history
  (`take` of a short list).
* **`repeated_along_game`** — discharges that hypothesis: along every game of legal moves from a legal start
  (`Game::from_state`: empty history, key and accumulators in step) `make_move` answers at every step, the
  history stack records entry for entry the from-scratch keys of the positions the game went through
  (`Proofs/Repetition.game_history`, from C02 `make_move_legal_total` / `ginv_apply` and C03 `sync_makeMove`),
  so the engine's verdict at the reached position **is** the rules' "an identical position occurred since
  the last capture or pawn move" — under the one assumption that remains, stated in the theorem: the 64-bit
  key does not confuse the current position with a different earlier position *of this game*.
* `repeated_window` — entries older than the clock are never consulted.
* `fifty_exact` — the fifty-move verdict is `clock ≥ 100 ∧ a legal move exists` relative to the
  engine's generator; `fifty_rules` composes it with C01's `generate_exact`: in every legal position the
  verdict is the rules' (`clock ≥ 100` and the side to move has a legal move).
* `insufficient_*` — the material rule as a function of piece counts: true for bare kings and for
  king + one minor v king; false whenever a pawn, rook or queen is present or more than two minor
  pieces remain; `material_agrees` links the counts to the board (`count_partition`, view consistency):
  on every consistent board with two kings the engine's verdict is what C11 demands wherever it speaks.
Search-internal null moves push a history entry without advancing the clock, so the window is then
one entry short per null move: soundness only, not claimed (C11 quantifies over game histories).
-/
namespace Tcheran.Props.C11
open Tcheran

/-- abstract form of both definitions: look for a match among the first `n` entries -/
theorem any_take_map {α β} (l : List α) (f : α → β) (p : β → Bool) (n : Nat) :
    ((l.map f).take n).any p = (l.take n).any (fun a => p (f a)) := by
  rw [← List.map_take, List.any_map]
  rfl

theorem any_congr_mem {α} (l : List α) (p q : α → Bool) (h : ∀ x ∈ l, p x = q x) : l.any p = l.any q := by
  induction l with
  | nil => rfl
  | cons x xs ih =>
    simp only [List.any_cons]
    rw [h x (by simp), ih (fun y hy => h y (by simp [hy]))]

/-- **repeated_exact** -/
theorem repeated_exact (g : Game) (cur : Rules.Pos) (earlier : List Rules.Pos) (keyOf : Rules.Pos → BB)
    (hclock : g.halfmove = cur.halfmove)
    (hkeys : g.history.map (·.zobrist) = earlier.map keyOf)
    (hcur : g.zobrist = keyOf cur)
    (hinj : ∀ p ∈ earlier, keyOf p = keyOf cur ↔ Rules.samePosition cur p = true) :
    g.isRepeated = Rules.isRepeated cur earlier := by
  unfold Game.isRepeated Rules.isRepeated
  have e1 : (g.history.take g.halfmove).any (fun h => h.zobrist == g.zobrist)
      = ((g.history.map (·.zobrist)).take g.halfmove).any (fun z => z == g.zobrist) := by
    rw [any_take_map]
  rw [e1, hkeys, any_take_map, hclock, hcur]
  apply any_congr_mem
  intro p hp
  have hmem : p ∈ earlier := List.mem_of_mem_take hp
  have := hinj p hmem
  cases hs : Rules.samePosition cur p with
  | true => simp [this.2 hs]
  | false =>
    have : keyOf p ≠ keyOf cur := fun e => by rw [this.1 e] at hs; cases hs
    simp [this]

/-- history entries older than the halfmove clock are never consulted -/
theorem repeated_window (g : Game) (extra : List History) :
    ({ g with history := g.history.take g.halfmove ++ extra } : Game).isRepeated
      = ({ g with history := g.history.take g.halfmove } : Game).isRepeated ∨ g.history.length < g.halfmove := by
  by_cases h : g.history.length < g.halfmove
  · exact Or.inr h
  · left
    unfold Game.isRepeated
    simp only
    have hl : (g.history.take g.halfmove).length = g.halfmove := by
      rw [List.length_take]; omega
    rw [List.take_append_of_le_length (by omega), List.take_take]

/-- **fifty_exact** (relative to the engine's own generator) -/
theorem fifty_exact (g : Game) (ms : List Move) (h : generateLegal g = some ms) :
    g.isFifty = some (decide (g.halfmove ≥ 100) && !ms.isEmpty) := by
  unfold Game.isFifty
  by_cases hc : g.halfmove ≥ 100
  · simp [hc, h]
  · simp [hc]

/-- **fifty_rules**: the fifty-move verdict is the rules' verdict in every legal position -/
theorem fifty_rules (T : SliderTables) (g : Game) (hc : g.board.Consistent)
    (hl : Rules.legalPos (Rules.ofGame g) = true) (ms : List Move) (h : generateLegal g = some ms) :
    g.isFifty = some (Rules.isFifty (Rules.ofGame g)) := by
  rw [fifty_exact g ms h]
  obtain ⟨k, hk⟩ := posH_of_legal g hc hl
  obtain ⟨caps, cache, quiets, h1, h2, h3⟩ := Tcheran.generate_exact T g k hk
  have hms : ms = caps ++ quiets := by
    unfold generateLegal at h
    rw [h1] at h
    change (do let quiets ← generateQuiets g cache; _) = some ms at h
    rw [h2] at h
    change (if (caps ++ quiets).length > 218 then none else pure (caps ++ quiets)) = some ms at h
    split at h
    · cases h
    · exact (Option.some.inj h).symm
  have hemp : ms.isEmpty = (Rules.legalMoves (Rules.ofGame g)).isEmpty := by
    rw [hms]
    cases hA : (caps ++ quiets) with
    | nil =>
      cases hB : Rules.legalMoves (Rules.ofGame g) with
      | nil => rfl
      | cons x xs =>
        have := (h3 x).2 (by rw [hB]; exact List.mem_cons_self)
        rw [hA] at this; cases this
    | cons y ys =>
      cases hB : Rules.legalMoves (Rules.ofGame g) with
      | nil =>
        have := (h3 y).1 (by rw [hA]; exact List.mem_cons_self)
        rw [hB] at this; cases this
      | cons x xs => rfl
  unfold Rules.isFifty
  rw [hemp]
  rfl

theorem fifty_below (g : Game) (h : g.halfmove < 100) : g.isFifty = some false := by
  unfold Game.isFifty
  rw [if_neg (by omega)]

/-- the material rule of `is_stalemate_by_insufficient_material` as a function of counts -/
def insuffCounts (n nk nb lightB : Nat) (oneEach kingInCorner kingOnEdge : Bool) : Bool :=
  if n == 2 then true
  else if n == 3 then decide (nk + nb > 0)
  else if n == 4 then
    (nk == 2 && !kingOnEdge) || (nb == 2 && (lightB != 1 || (oneEach && !kingInCorner)))
      || (nk == 1 && nb == 1 && oneEach && !kingInCorner)
  else false

/-- bare kings: insufficient -/
theorem insufficient_bare_kings (lb : Nat) (a b c : Bool) : insuffCounts 2 0 0 lb a b c = true := rfl

/-- king and one minor piece against king: insufficient -/
theorem insufficient_one_minor (nk nb lb : Nat) (a b c : Bool) (h : nk + nb = 1) :
    insuffCounts 3 nk nb lb a b c = true := by
  unfold insuffCounts
  simp
  omega

/-- a pawn, rook or queen on the board: never insufficient (`n = 2 kings + minors + heavy`) -/
theorem sufficient_with_heavy (n nk nb heavy lb : Nat) (a b c : Bool) (hn : n = 2 + nk + nb + heavy)
    (hh : heavy ≥ 1) : insuffCounts n nk nb lb a b c = false := by
  unfold insuffCounts
  by_cases h2 : n = 2
  · omega
  · by_cases h3 : n = 3
    · have : nk + nb = 0 := by omega
      simp [h3, this]
    · by_cases h4 : n = 4
      · have e1 : (nk == 2) = false := by simp; omega
        have e2 : (nb == 2) = false := by simp; omega
        simp [h4, e1, e2]
        intro hk hb
        omega
      · simp [h2, h3, h4]

/-- more than two minor pieces: never insufficient -/
theorem sufficient_three_minors (n nk nb heavy lb : Nat) (a b c : Bool) (hn : n = 2 + nk + nb + heavy)
    (hm : nk + nb ≥ 3) : insuffCounts n nk nb lb a b c = false := by
  unfold insuffCounts
  have h2 : ¬ n = 2 := by omega
  have h3 : ¬ n = 3 := by omega
  have h4 : ¬ n = 4 := by omega
  simp [h2, h3, h4]

theorem count_or_pos (a b : BB) : (a ||| b != 0#64) = decide (BB.count a + BB.count b > 0) := by
  by_cases ha : a = 0#64
  · by_cases hb : b = 0#64
    · subst ha hb
      have : BB.count 0#64 = 0 := (count_eq_zero_iff _).2 rfl
      simp [this]
    · have hcb : BB.count b ≠ 0 := fun h => hb ((count_eq_zero_iff b).1 h)
      subst ha
      have : 0 < BB.count 0#64 + BB.count b := by omega
      simp [hb, this]
  · have hc : BB.count a ≠ 0 := fun h => ha ((count_eq_zero_iff a).1 h)
    have hor : a ||| b ≠ 0#64 := by
      intro h
      apply ha
      apply ext_mem; intro t
      have := congrArg (fun x => mem x t) h
      simp only [mem_or, mem_zero, Bool.or_eq_false_iff] at this
      rw [mem_zero]; exact this.1
    have : 0 < BB.count a + BB.count b := by omega
    simp [hor, this]

/-- the model's verdict is this function of the board's counts -/
theorem isInsufficient_eq (g : Game) :
    g.isInsufficient = insuffCounts (BB.count g.board.occupancy) (BB.count g.board.knights)
      (BB.count g.board.bishops) (BB.count (g.board.bishops &&& BB.lightSquares))
      (BB.count (g.board.occFor g.player) == 2) ((g.board.kings &&& BB.corners) != 0#64)
      ((g.board.kings &&& BB.edges) != 0#64) := by
  unfold Game.isInsufficient insuffCounts
  simp only
  rw [count_or_pos]

theorem filter_length_split {α} (l : List α) (t p q : α → Bool) (h : ∀ x, t x = (p x || q x))
    (hd : ∀ x, ¬ (p x = true ∧ q x = true)) :
    (l.filter t).length = (l.filter p).length + (l.filter q).length := by
  induction l with
  | nil => rfl
  | cons x xs ih =>
    simp only [List.filter_cons]
    rw [h x]
    cases hp : p x <;> cases hq : q x
    · simp [ih]
    · simp [ih]; omega
    · simp [ih]; omega
    · exact absurd ⟨hp, hq⟩ (hd x)

/-- on a consistent board a bitboard of one kind counts the squares holding that kind -/
theorem count_kind (b : Board) (hc : b.Consistent) (k : PieceKind) :
    BB.count (b.byKind k) = Rules.count b.squares (fun pc => pc.kind == k) := by
  unfold BB.count BB.toList Rules.count
  congr 1
  apply List.filter_congr
  intro s _
  rw [hc.1 k s]
  show _ = (b.pieceAt s).any _
  cases b.pieceAt s with
  | none => simp
  | some pc =>
    simp only [Option.map_some, Option.some.injEq, Option.any_some]
    cases hk : (pc.kind == k) <;> simp_all

theorem count_occ (b : Board) (hc : b.Consistent) :
    BB.count b.occupancy = Rules.count b.squares (fun _ => true) := by
  unfold BB.count BB.toList Rules.count
  congr 1
  apply List.filter_congr
  intro s _
  rw [mem_occupancy b hc s]
  unfold occOf
  cases Rules.at' b.squares s <;> rfl

/-- every man is a king, a knight, a bishop or a pawn / rook / queen -/
theorem count_partition (sq : Rules.RBoard) :
    Rules.count sq (fun _ => true) =
      Rules.count sq (fun pc => pc.kind == .king) + Rules.count sq (fun pc => pc.kind == .knight) +
      Rules.count sq (fun pc => pc.kind == .bishop) +
      Rules.count sq (fun pc => pc.kind == .pawn || pc.kind == .rook || pc.kind == .queen) := by
  unfold Rules.count
  let P (f : Piece → Bool) : Sq → Bool := fun s => (Rules.at' sq s).any f
  have e1 := filter_length_split (List.finRange 64) (P fun _ => true) (P fun pc => pc.kind == .king)
    (P fun pc => pc.kind != .king)
    (by intro x; simp only [P]; cases Rules.at' sq x with
        | none => rfl
        | some pc => obtain ⟨k, pl⟩ := pc; cases k <;> rfl)
    (by intro x; simp only [P]; cases Rules.at' sq x with
        | none => simp
        | some pc => obtain ⟨k, pl⟩ := pc; cases k <;> simp)
  have e2 := filter_length_split (List.finRange 64) (P fun pc => pc.kind != .king) (P fun pc => pc.kind == .knight)
    (P fun pc => pc.kind != .king && pc.kind != .knight)
    (by intro x; simp only [P]; cases Rules.at' sq x with
        | none => rfl
        | some pc => obtain ⟨k, pl⟩ := pc; cases k <;> rfl)
    (by intro x; simp only [P]; cases Rules.at' sq x with
        | none => simp
        | some pc => obtain ⟨k, pl⟩ := pc; cases k <;> simp)
  have e3 := filter_length_split (List.finRange 64) (P fun pc => pc.kind != .king && pc.kind != .knight)
    (P fun pc => pc.kind == .bishop) (P fun pc => pc.kind == .pawn || pc.kind == .rook || pc.kind == .queen)
    (by intro x; simp only [P]; cases Rules.at' sq x with
        | none => rfl
        | some pc => obtain ⟨k, pl⟩ := pc; cases k <;> rfl)
    (by intro x; simp only [P]; cases Rules.at' sq x with
        | none => simp
        | some pc => obtain ⟨k, pl⟩ := pc; cases k <;> simp)
  simp only [P] at e1 e2 e3
  omega

/-- **material_agrees**: on a consistent board with exactly two kings, wherever C11 demands a verdict of
the material rule, the engine gives it -/
theorem material_agrees (g : Game) (hc : g.board.Consistent)
    (hk : Rules.count g.board.squares (fun pc => pc.kind == .king) = 2) (b : Bool)
    (hd : Rules.insufficientDemand (Rules.ofGame g) = some b) : g.isInsufficient = b := by
  rw [isInsufficient_eq]
  have hn := count_occ g.board hc
  have hp := count_partition g.board.squares
  have hkn : BB.count g.board.knights = Rules.count g.board.squares (fun pc => pc.kind == .knight) :=
    count_kind g.board hc .knight
  have hbi : BB.count g.board.bishops = Rules.count g.board.squares (fun pc => pc.kind == .bishop) :=
    count_kind g.board hc .bishop
  -- minors, as the demand counts them
  have hmin : Rules.count g.board.squares (fun pc => pc.kind == .knight || pc.kind == .bishop) =
      Rules.count g.board.squares (fun pc => pc.kind == .knight) +
      Rules.count g.board.squares (fun pc => pc.kind == .bishop) := by
    unfold Rules.count
    apply filter_length_split
    · intro x
      cases Rules.at' g.board.squares x with
      | none => rfl
      | some pc => obtain ⟨k, pl⟩ := pc; cases k <;> rfl
    · intro x
      cases Rules.at' g.board.squares x with
      | none => simp
      | some pc => obtain ⟨k, pl⟩ := pc; cases k <;> simp
  have hd2 : (if (decide (Rules.count g.board.squares (fun pc => pc.kind == .pawn || pc.kind == .rook || pc.kind == .queen) > 0) ||
        decide (Rules.count g.board.squares (fun pc => pc.kind == .knight || pc.kind == .bishop) > 2)) = true then some false
      else if Rules.count g.board.squares (fun pc => pc.kind == .knight || pc.kind == .bishop) ≤ 1 then some true
      else none) = some b := hd
  rw [hmin] at hd2
  rw [hn, hp, hk, hkn, hbi]
  generalize Rules.count g.board.squares (fun pc => pc.kind == .pawn || pc.kind == .rook || pc.kind == .queen) = heavy at hd2 ⊢
  generalize Rules.count g.board.squares (fun pc => pc.kind == .knight) = nk at hd2 ⊢
  generalize Rules.count g.board.squares (fun pc => pc.kind == .bishop) = nb at hd2 ⊢
  split at hd2
  · rename_i h1
    have := Option.some.inj hd2
    subst this
    simp only [Bool.or_eq_true, decide_eq_true_eq] at h1
    rcases h1 with h1 | h1
    · exact sufficient_with_heavy (2 + nk + nb + heavy) nk nb heavy _ _ _ _ rfl h1
    · exact sufficient_three_minors (2 + nk + nb + heavy) nk nb heavy _ _ _ _ rfl h1
  · rename_i h1
    simp only [Bool.or_eq_true, decide_eq_true_eq, not_or, Nat.not_lt] at h1
    split at hd2
    · rename_i h2
      have := Option.some.inj hd2
      subst this
      have hh : heavy = 0 := by omega
      subst hh
      by_cases h0 : nk + nb = 0
      · have : nk = 0 ∧ nb = 0 := by omega
        obtain ⟨a, c⟩ := this
        subst a; subst c
        exact insufficient_bare_kings _ _ _ _
      · have h1' : nk + nb = 1 := by omega
        have := insufficient_one_minor nk nb (BB.count (g.board.bishops &&& BB.lightSquares))
          (BB.count (g.board.occFor g.player) == 2) ((g.board.kings &&& BB.corners) != 0#64)
          ((g.board.kings &&& BB.edges) != 0#64) h1'
        have e : 2 + nk + nb + 0 = 3 := by omega
        rw [e]; exact this
    · cases hd2

/-- **repeated_along_game**: the repetition verdict after any game of legal moves from a legal start is the
rules' verdict on the positions of that game -/
theorem repeated_along_game (c : Cfg) (g0 : Game) (ms : List Move) (pos' : Rules.Pos) (hs : Sync c g0)
    (h0 : g0.history = []) (hl : Rules.legalPos (Rules.ofGame g0) = true)
    (hp : LegalPath (Rules.ofGame g0) ms pos')
    (hinj : ∀ p ∈ trail (Rules.ofGame g0) ms [], posKey c p = posKey c pos' → Rules.samePosition pos' p = true) :
    ∃ g', makeMoves c g0 ms = some g' ∧ Rules.ofGame g' = pos' ∧
      g'.isRepeated = Rules.isRepeated pos' (trail (Rules.ofGame g0) ms []) := by
  obtain ⟨g', h1, h2, h3, h4⟩ := game_history c g0 ms pos' [] hs (ginv_of_legal _ hl) hp (by rw [h0]; rfl)
  refine ⟨g', h1, h2, ?_⟩
  refine repeated_exact g' pos' _ (posKey c) (by rw [← h2]; rfl) h4 (by rw [key_ofGame c g' h3, h2]) ?_
  intro p hp
  exact ⟨hinj p hp, fun h => samePosition_key c pos' p h⟩

/-- non-vacuity of `repeated_along_game`: a position built by `Game::from_state` (here
`7b/8/8/4Pp2/3K4/8/8/k7 w - -`, any key table) meets its three hypotheses about the start, and the empty
game is a legal path -/
def demoBoard : Board :=
  ((((Board.empty.setAt ⟨27, by decide⟩ ⟨.king, .white⟩).setAt ⟨0, by decide⟩ ⟨.king, .black⟩).setAt
    ⟨36, by decide⟩ ⟨.pawn, .white⟩).setAt ⟨37, by decide⟩ ⟨.pawn, .black⟩).setAt ⟨63, by decide⟩ ⟨.bishop, .black⟩

theorem demo_start (c : Cfg) :
    Sync c (Game.fromState c demoBoard .white Rights.none none 0 0) ∧
    (Game.fromState c demoBoard .white Rights.none none 0 0).history = [] ∧
    Rules.legalPos (Rules.ofGame (Game.fromState c demoBoard .white Rights.none none 0 0)) = true := by
  refine ⟨?_, rfl, ?_⟩
  · refine ⟨?_, ?_, rfl⟩
    · unfold demoBoard
      refine Board.consistent_setAt _ _ _ (Board.consistent_setAt _ _ _ (Board.consistent_setAt _ _ _
        (Board.consistent_setAt _ _ _ (Board.consistent_setAt _ _ _ Board.consistent_empty ?_) ?_) ?_) ?_) ?_ <;>
        decide +kernel
    · show Game.hash c demoBoard .white Rights.none none = fullHash c demoBoard .white Rights.none none
      refine hash_eq_fullHash c demoBoard ?_ _ _ _
      unfold demoBoard
      refine Board.consistent_setAt _ _ _ (Board.consistent_setAt _ _ _ (Board.consistent_setAt _ _ _
        (Board.consistent_setAt _ _ _ (Board.consistent_setAt _ _ _ Board.consistent_empty ?_) ?_) ?_) ?_) ?_ <;>
        decide +kernel
  · show Rules.legalPos ⟨demoBoard.squares, .white, Rights.none, none, 0, 0⟩ = true
    decide +kernel

/-- non-vacuity of `repeated_exact`'s shape: a two-entry history with the matching key first -/
example : ({ player := .white, board := Board.empty, rights := Rights.none, ep := none, halfmove := 2, plies := 2,
             zobrist := 7#64, inc := ⟨0, 0⟩,
             history := [⟨none, none, Rights.none, none, 0, 5#64, ⟨0, 0⟩⟩, ⟨none, none, Rights.none, none, 0, 7#64, ⟨0, 0⟩⟩] } : Game).isRepeated
    = true := by decide

end Tcheran.Props.C11
#print axioms Tcheran.Props.C11.any_take_map
#print axioms Tcheran.Props.C11.any_congr_mem
#print axioms Tcheran.Props.C11.repeated_exact
#print axioms Tcheran.Props.C11.repeated_window
#print axioms Tcheran.Props.C11.fifty_exact
#print axioms Tcheran.Props.C11.fifty_rules
#print axioms Tcheran.Props.C11.fifty_below
#print axioms Tcheran.Props.C11.insufficient_bare_kings
#print axioms Tcheran.Props.C11.insufficient_one_minor
#print axioms Tcheran.Props.C11.sufficient_with_heavy
#print axioms Tcheran.Props.C11.sufficient_three_minors
#print axioms Tcheran.Props.C11.filter_length_split
#print axioms Tcheran.Props.C11.count_kind
#print axioms Tcheran.Props.C11.count_occ
#print axioms Tcheran.Props.C11.count_partition
#print axioms Tcheran.Props.C11.material_agrees
#print axioms Tcheran.Props.C11.count_or_pos
#print axioms Tcheran.Props.C11.isInsufficient_eq
#print axioms Tcheran.Props.C11.repeated_along_game
#print axioms Tcheran.Props.C11.demo_start
