import TcheranVerif.Model.Eval
namespace Tcheran.Props.C11
theorem placeholder : True := trivial
end Tcheran.Props.C11
#print axioms Tcheran.Props.C11.placeholder
