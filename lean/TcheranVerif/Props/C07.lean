import TcheranVerif.Proofs.Magic
/-!
# C07 — attack tables equal first-principles geometry

* `slide_spec` — the engine's ray walk equals the square-by-square walk for **every** square and
  **every** one of the 2^64 occupancies (induction on the walk, `Proofs/Attacks.lean`).
* `knight/king/pawn/between_table_geometric` — the per-square tables equal their coordinate
  definitions (kernel decision over all 64 / 64 / 128 / 4,096 entries).
* `magic_lookup_exact` — for every square and every occupancy the magic lookup returns exactly the
  ray walk, and its index lies inside the table. Lifting: index and ray walk depend on the occupancy
  only through the relevant-blocker mask (`*_relevant`), every subset of the mask is enumerated by
  the carry-rippler (`mem_depositList` + the per-square list equality inside the sweep), and the
  sweep over all 107,648 (square, subset) pairs with the magics regenerated from `/repo`.

Trusted base of this file: the sweep `sweep_ok` is discharged by `native_decide` (axiom
`Lean.ofReduceBool`: trust in the Lean compiler and its runtime for one closed Boolean term); every
other statement is kernel-checked with `propext`/`Quot.sound` only. See DESIGN §3.
-/
namespace Tcheran.Props.C07
open Tcheran Geometry

/-- **slide_spec** (unbounded): engine ray walk = first-principles ray walk -/
theorem slide_spec (dirs : List Dir) (s : Sq) (occ : BB) : slide dirs s occ = slideSpec dirs s occ :=
  slide_eq_spec dirs s occ

theorem slide_spec_mem (dirs : List Dir) (s : Sq) (occ : BB) (t : Sq) :
    mem (slide dirs s occ) t = true ↔ ∃ d ∈ dirs, t ∈ seen (mem occ) (Rules.ray d s) :=
  mem_slide dirs s occ t

theorem knight_table_geometric (s : Sq) : knightAttacks s = knightSpec s := by
  rw [knightAttacks_eq, genKnight_geometric]

theorem king_table_geometric (s : Sq) : kingAttacks s = kingSpec s := by
  rw [kingAttacks_eq, genKing_geometric]

theorem pawn_table_geometric (s : Sq) (p : Player) : pawnAttacks s p = pawnSpec s p := by
  rw [pawnAttacks_eq]
  cases p
  · exact genPawn_geometric s .white (by simp)
  · exact genPawn_geometric s .black (by simp)

theorem between_table_geometric (a b : Sq) : between a b = betweenSpec a b := by
  rw [between_eq, genBetween_geometric]

/-- the finite sweep for one square and one slider kind -/
def sweepOne (mask : BB) (index : BB → Nat) (gen : BB → BB) : Bool :=
  (subsetsOf mask == depositList mask) &&
  (subsetsOf mask).all fun b => decide (index b < Gen.tableSize) && (attackTable.getD (index b) 0#64 == gen b)

def sweepOk : Bool :=
  (List.finRange 64).all fun s =>
    sweepOne (rookMask s) (rookIndex s) (genRookAttacks s) &&
    sweepOne (bishopMask s) (bishopIndex s) (genBishopAttacks s)

/-- all 107,648 (square, blocker subset) pairs, against the magics regenerated from /repo -/
theorem sweep_ok : sweepOk = true := by native_decide

theorem sweepOne_lookup {mask : BB} {index : BB → Nat} {gen : BB → BB}
    (h : sweepOne mask index gen = true) (occ : BB) :
    index (occ &&& mask) < Gen.tableSize ∧ attackTable.getD (index (occ &&& mask)) 0#64 = gen (occ &&& mask) := by
  unfold sweepOne at h
  rw [Bool.and_eq_true] at h
  have hl : subsetsOf mask = depositList mask := eq_of_beq h.1
  have hm : (occ &&& mask) ∈ subsetsOf mask := by rw [hl]; exact mem_depositList mask occ
  have := (List.all_eq_true.1 h.2) _ hm
  rw [Bool.and_eq_true] at this
  exact ⟨of_decide_eq_true this.1, eq_of_beq this.2⟩

/-- **magic_lookup_exact** (rook): every square, every occupancy -/
theorem rook_lookup_exact (s : Sq) (occ : BB) :
    rookAttacks s occ = genRookAttacks s occ ∧ rookIndex s occ < Gen.tableSize := by
  have hs := (List.all_eq_true.1 sweep_ok) s (List.mem_finRange s)
  rw [Bool.and_eq_true] at hs
  have := sweepOne_lookup hs.1 occ
  unfold rookAttacks
  rw [rookIndex_relevant, genRook_relevant]
  exact ⟨this.2, this.1⟩

/-- **magic_lookup_exact** (bishop) -/
theorem bishop_lookup_exact (s : Sq) (occ : BB) :
    bishopAttacks s occ = genBishopAttacks s occ ∧ bishopIndex s occ < Gen.tableSize := by
  have hs := (List.all_eq_true.1 sweep_ok) s (List.mem_finRange s)
  rw [Bool.and_eq_true] at hs
  have := sweepOne_lookup hs.2 occ
  unfold bishopAttacks
  rw [bishopIndex_relevant, genBishop_relevant]
  exact ⟨this.2, this.1⟩

/-- headline: table lookups equal the first-principles geometry -/
theorem rook_table_geometric (s : Sq) (occ : BB) : rookAttacks s occ = rookSpec s occ := by
  rw [(rook_lookup_exact s occ).1]; exact slide_eq_spec _ s occ

theorem bishop_table_geometric (s : Sq) (occ : BB) : bishopAttacks s occ = bishopSpec s occ := by
  rw [(bishop_lookup_exact s occ).1]; exact slide_eq_spec _ s occ

/-- non-vacuity: a blocked rook on a1 (blockers on a3 and c1) sees a2, a3, b1, c1 -/
example : rookSpec A1 (bb ⟨16, by decide⟩ ||| bb C1) = bb ⟨8, by decide⟩ ||| bb ⟨16, by decide⟩ ||| bb B1 ||| bb C1 := by
  decide +kernel

end Tcheran.Props.C07
#print axioms Tcheran.Props.C07.slide_spec
#print axioms Tcheran.Props.C07.slide_spec_mem
#print axioms Tcheran.Props.C07.knight_table_geometric
#print axioms Tcheran.Props.C07.king_table_geometric
#print axioms Tcheran.Props.C07.pawn_table_geometric
#print axioms Tcheran.Props.C07.between_table_geometric
#print axioms Tcheran.Props.C07.sweep_ok
#print axioms Tcheran.Props.C07.sweepOne_lookup
#print axioms Tcheran.Props.C07.rook_lookup_exact
#print axioms Tcheran.Props.C07.bishop_lookup_exact
#print axioms Tcheran.Props.C07.rook_table_geometric
#print axioms Tcheran.Props.C07.bishop_table_geometric
