import TcheranVerif.Model.Eval
namespace Tcheran.Props.C07
theorem placeholder : True := trivial
end Tcheran.Props.C07
#print axioms Tcheran.Props.C07.placeholder
