import TcheranVerif.Model.Search
namespace Tcheran.Props.C16
theorem placeholder : True := trivial
end Tcheran.Props.C16
#print axioms Tcheran.Props.C16.placeholder
