import TcheranVerif.Model.Eval
import TcheranVerif.Model.Rules
import TcheranVerif.Proofs.EvalBound
import TcheranVerif.Proofs.Mirror
import TcheranVerif.Proofs.MenCount
import TcheranVerif.Props.C07
/-!
# C16 — evaluation: proper blend, packed representation, table-level colour symmetry

* `blend_between` / `blend_total` — for every representable (mg, eg) pair and every phase ≥ 0 the
  blend is defined (no `i16::try_from` panic) and lies between the two assessments; the weights are
  `min phase 24` and `24 - min phase 24`, both non-negative (`weights_nonneg`).
* `midgame_pack` / `endgame_pack` — the packed `i32` representation returns what was packed.
* `pst_mirror`, `passed_pst_mirror`, `passed_mask_mirror` — the colour symmetry of every table the
  evaluation reads, decided by the kernel on the tables regenerated from `/repo`
  (6 × 64 + 64 + 64 entries).
* **`eval_bounded`** — for every legal position (the decidable `Legal` predicate: one king a side, at most
  sixteen men a side, …) whose board views agree and whose accumulators are in step with the board (C02,
  C15), the evaluation **completes** — every mobility / king-attack table index is in range, the packed
  middlegame and endgame sums stay inside `i16` so their extraction is exact, `i16::try_from` succeeds — and
  its value lies **strictly inside** (−31,900, 31,900), the range reserved for non-mate scores; in fact
  within ±31,130. Promoted pieces included: the bound uses only "at most fifteen men besides the king".
  `Proofs/EvalBound.lean`: every fold of the evaluation keeps "accumulator = pack m e with m, e between
  class bounds × number of men processed"; class bounds are checked against the regenerated tables by the
  kernel; the rest is linear arithmetic. `SliderTables` (C07) bounds the slider popcounts.
* **`eval_mirror`** — for every such position the evaluation of `Game.mirror` (every man on the rank-flipped
  square with the other colour, other side to move, rights swapped, e.p. target flipped) seen from its side
  to move **equals** the evaluation of the position. `Proofs/MirrorBits.lean` gives `swap_bytes` its set
  meaning for all 2^64 boards (`mem_flipV`) and commutes it with every shift; `Proofs/Mirror.lean` shows
  each term changes sign: slider / leaper attack sets commute with the flip (through C07's ray-walk
  equality), every fold over a bitboard is independent of the iteration order (the flipped board is *not*
  iterated in flipped order), the king-safety lookup needs the one-king hypothesis, the blend is odd because
  truncating division is. `mirror_involutive`, `mirror_consistent`. The correspondence stream checks that
  the second position of each pair the implementation is run on is exactly `Game.mirror` of the first.
* **`eval_along_game`** — both at every position of every game of legal moves from a legal start
  (`Proofs/MenCount.lean`: a legal move never increases the number of men of a colour; with C02 `game_refines`
  and C03/C15 `game_sync`).
-/
namespace Tcheran.Props.C16
open Tcheran Tcheran.Eval

theorem phaseCountMax_eq : Gen.phaseCountMax = 24 := by decide

theorem midgame_pack (mg eg : Int) (h1 : -32768 ≤ mg) (h2 : mg ≤ 32767) : midgame (pack mg eg) = mg := by
  unfold midgame pack; omega

theorem endgame_pack (mg eg : Int) (h1 : -32768 ≤ mg) (h2 : mg ≤ 32767) : endgame (pack mg eg) = eg := by
  unfold endgame pack; omega

/-- both blend weights are non-negative and sum to 24, whatever the phase -/
theorem weights_nonneg (phase : Int) (h : 0 ≤ phase) :
    0 ≤ min phase Gen.phaseCountMax ∧ 0 ≤ Gen.phaseCountMax - min phase Gen.phaseCountMax ∧
    min phase Gen.phaseCountMax + (Gen.phaseCountMax - min phase Gen.phaseCountMax) = 24 := by
  rw [phaseCountMax_eq]; omega

theorem tdiv24_between (lo hi x : Int) (h1 : lo * 24 ≤ x) (h2 : x ≤ hi * 24) :
    lo ≤ Int.tdiv x 24 ∧ Int.tdiv x 24 ≤ hi := by
  by_cases hx : 0 ≤ x
  · rw [Int.tdiv_eq_ediv_of_nonneg hx]; omega
  · have hn : 0 ≤ -x := by omega
    have e : Int.tdiv x 24 = -((-x) / 24) := by
      have := Int.neg_tdiv (-x) 24
      rw [Int.neg_neg] at this
      rw [this, Int.tdiv_eq_ediv_of_nonneg hn]
    rw [e]; omega

theorem weighted_between (a b w : Int) (hw0 : 0 ≤ w) (hw : w ≤ 24) :
    min a b * 24 ≤ a * w + b * (24 - w) ∧ a * w + b * (24 - w) ≤ max a b * 24 := by
  have hc : w = 0 ∨ w = 1 ∨ w = 2 ∨ w = 3 ∨ w = 4 ∨ w = 5 ∨ w = 6 ∨ w = 7 ∨ w = 8 ∨ w = 9 ∨ w = 10 ∨ w = 11 ∨
      w = 12 ∨ w = 13 ∨ w = 14 ∨ w = 15 ∨ w = 16 ∨ w = 17 ∨ w = 18 ∨ w = 19 ∨ w = 20 ∨ w = 21 ∨ w = 22 ∨
      w = 23 ∨ w = 24 := by omega
  rcases hc with h | h | h | h | h | h | h | h | h | h | h | h | h | h | h | h | h | h | h | h | h | h | h | h | h <;>
    (subst h; omega)

/-- **blend_between**: the blend of a representable pair lies between its two components -/
theorem blend_between (mg eg phase v : Int) (hmg : -32768 ≤ mg ∧ mg ≤ 32767) (hph : 0 ≤ phase)
    (h : forPhase (pack mg eg) phase = some v) : min mg eg ≤ v ∧ v ≤ max mg eg := by
  unfold forPhase at h
  rw [midgame_pack mg eg hmg.1 hmg.2, endgame_pack mg eg hmg.1 hmg.2, phaseCountMax_eq] at h
  simp only at h
  split at h
  · cases h
    have hw := weighted_between mg eg (min phase 24) (by omega) (by omega)
    exact tdiv24_between _ _ _ hw.1 hw.2
  · cases h

/-- **blend_total**: no `i16::try_from(..).unwrap()` panic for `i16` components -/
theorem blend_total (mg eg phase : Int) (hmg : -32768 ≤ mg ∧ mg ≤ 32767) (heg : -32768 ≤ eg ∧ eg ≤ 32767)
    (hph : 0 ≤ phase) : ∃ v, forPhase (pack mg eg) phase = some v := by
  unfold forPhase
  rw [midgame_pack mg eg hmg.1 hmg.2, endgame_pack mg eg hmg.1 hmg.2, phaseCountMax_eq]
  simp only
  have hw := weighted_between mg eg (min phase 24) (by omega) (by omega)
  have hb := tdiv24_between _ _ _ hw.1 hw.2
  have : inI16 (Int.tdiv (mg * min phase 24 + eg * (24 - min phase 24)) 24) = true := by
    unfold inI16
    simp only [Bool.and_eq_true, decide_eq_true_eq]
    omega
  rw [if_pos this]
  exact ⟨_, rfl⟩

/-- colour symmetry of the piece-square tables (material included), regenerated constants -/
theorem pst_mirror : ∀ k ∈ PieceKind.all, ∀ s : Sq, pst .black k (Sq.flip s) = -(pst .white k s) := by
  decide +kernel

theorem passed_pst_mirror : ∀ s : Sq, passedPst .black (Sq.flip s) = -(passedPst .white s) := by
  decide +kernel

theorem passed_mask_mirror : ∀ s : Sq, passedMask .black (Sq.flip s) = BB.flipV (passedMask .white s) := by
  decide +kernel

/-- **eval_bounded**: total (no out-of-range index, no overflow of the packed sums, no failing narrowing)
and strictly inside the non-mate range, for every legal position -/
theorem eval_bounded (T : SliderTables) (g : Game) (hc : Board.Consistent g.board)
    (hl : Rules.legalPos (Rules.ofGame g) = true) (hinc : g.inc = Game.incInit theCfg g.board) :
    ∃ v, Eval.eval g = some v ∧ -31900 < v ∧ v < 31900 :=
  eval_bounded_legal T g hc hl hinc

/-- the same from the counts alone (any number of promoted pieces among at most sixteen men a side) -/
theorem eval_bounded_counts (T : SliderTables) (g : Game) (hc : Board.Consistent g.board)
    (hinc : g.inc = Game.incInit theCfg g.board)
    (hKw : cnt g.board (isK .white) sqs = 1) (hKb : cnt g.board (isK .black) sqs = 1)
    (hW : cnt g.board (isP .white) sqs + cnt g.board (isO .white) sqs + cnt g.board (isK .white) sqs ≤ 16)
    (hB : cnt g.board (isP .black) sqs + cnt g.board (isO .black) sqs + cnt g.board (isK .black) sqs ≤ 16) :
    ∃ v, Eval.eval g = some v ∧ -31130 ≤ v ∧ v ≤ 31130 :=
  eval_total_bounded T g hc hinc hKw hKb hW hB

/-- the slider tables of the engine are the ray walks (`Props.C07`) -/
theorem sliderTables : SliderTables :=
  ⟨Tcheran.Props.C07.rook_table_geometric, Tcheran.Props.C07.bishop_table_geometric⟩

/-- **eval_mirror**: colour swap + board flip leaves the evaluation, seen from the side to move, unchanged,
for every legal position -/
theorem eval_mirror (T : SliderTables) (g : Game) (hc : Board.Consistent g.board)
    (hl : Rules.legalPos (Rules.ofGame g) = true) (hinc : g.inc = Game.incInit theCfg g.board) :
    Eval.eval (Game.mirror theCfg g) = Eval.eval g :=
  eval_mirror_legal T g hc hl hinc

/-- the same with the engine's own tables (C07 discharged) and from the counts alone -/
theorem eval_mirror_tables (g : Game) (hc : Board.Consistent g.board)
    (hinc : g.inc = Game.incInit theCfg g.board)
    (hKw : cnt g.board (isK .white) sqs = 1) (hKb : cnt g.board (isK .black) sqs = 1)
    (hW : cnt g.board (isP .white) sqs + cnt g.board (isO .white) sqs + cnt g.board (isK .white) sqs ≤ 16)
    (hB : cnt g.board (isP .black) sqs + cnt g.board (isO .black) sqs + cnt g.board (isK .black) sqs ≤ 16) :
    Eval.eval (Game.mirror theCfg g) = Eval.eval g :=
  eval_mirror_counts sliderTables g hc hinc hKw hKb hW hB

/-- **eval_along_game**: at every position of every game of legal moves from a legal start — promotions
included: a legal move never increases the number of men of a colour (`men_apply`) — `make_move` answers, the
accumulators stay in step (C15), and the evaluation is total, strictly inside the non-mate range and equal to
the evaluation of the mirrored position -/
theorem eval_along_game (g0 : Game) (ms : List Move) (pos' : Rules.Pos) (hs : Sync theCfg g0)
    (hl : Rules.legalPos (Rules.ofGame g0) = true) (hp : LegalPath (Rules.ofGame g0) ms pos') :
    ∃ g', makeMoves theCfg g0 ms = some g' ∧ Rules.ofGame g' = pos' ∧
      ∃ v, Eval.eval g' = some v ∧ -31900 < v ∧ v < 31900 ∧ Eval.eval (Game.mirror theCfg g') = some v :=
  Tcheran.eval_along_game sliderTables g0 ms pos' hs hl hp

/-- the transformation is an involution on boards and keeps the three views in agreement, so the mirrored
position satisfies the hypotheses of every theorem stated for consistent boards -/
theorem mirror_involutive (b : Board) : b.mirror.mirror = b := mirror_mirror b
theorem mirror_views_agree (b : Board) (hc : Board.Consistent b) : Board.Consistent b.mirror :=
  mirror_consistent b hc

/-- set meaning of `Bitboard::flip_vertically` for every board -/
theorem flip_vertically_spec (b : BB) (t : Sq) : mem (BB.flipV b) t = mem b t.flip := mem_flipV b t

/-- non-vacuity: `7b/8/8/4Pp2/3K4/8/8/k7 w - -` meets every hypothesis of `eval_mirror`, and so does its
mirror image -/
def demoBoard : Board :=
  ((((Board.empty.setAt ⟨27, by decide⟩ ⟨.king, .white⟩).setAt ⟨0, by decide⟩ ⟨.king, .black⟩).setAt
    ⟨36, by decide⟩ ⟨.pawn, .white⟩).setAt ⟨37, by decide⟩ ⟨.pawn, .black⟩).setAt ⟨63, by decide⟩ ⟨.bishop, .black⟩
def demoGame : Game := Game.fromState theCfg demoBoard .white Rights.none none 0 0

theorem demo_consistent : Board.Consistent demoBoard := by
  unfold demoBoard
  refine Board.consistent_setAt _ _ _ (Board.consistent_setAt _ _ _ (Board.consistent_setAt _ _ _
    (Board.consistent_setAt _ _ _ (Board.consistent_setAt _ _ _ Board.consistent_empty ?_) ?_) ?_) ?_) ?_ <;>
    decide +kernel
theorem demo_legal : Rules.legalPos (Rules.ofGame demoGame) = true := by decide +kernel
theorem demo_mirror_legal : Rules.legalPos (Rules.ofGame (Game.mirror theCfg demoGame)) = true := by
  decide +kernel
theorem demo_eval_mirror : Eval.eval (Game.mirror theCfg demoGame) = Eval.eval demoGame :=
  eval_mirror sliderTables demoGame demo_consistent demo_legal rfl

/-- non-vacuity: a concrete blend -/
example : forPhase (pack 100 200) 20 = some 116 := by decide

end Tcheran.Props.C16
#print axioms Tcheran.Props.C16.midgame_pack
#print axioms Tcheran.Props.C16.endgame_pack
#print axioms Tcheran.Props.C16.weights_nonneg
#print axioms Tcheran.Props.C16.tdiv24_between
#print axioms Tcheran.Props.C16.weighted_between
#print axioms Tcheran.Props.C16.blend_between
#print axioms Tcheran.Props.C16.blend_total
#print axioms Tcheran.Props.C16.pst_mirror
#print axioms Tcheran.Props.C16.passed_pst_mirror
#print axioms Tcheran.Props.C16.passed_mask_mirror
#print axioms Tcheran.Props.C16.phaseCountMax_eq
#print axioms Tcheran.Props.C16.eval_bounded
#print axioms Tcheran.Props.C16.eval_bounded_counts
#print axioms Tcheran.Props.C16.sliderTables
#print axioms Tcheran.Props.C16.eval_mirror
#print axioms Tcheran.Props.C16.eval_mirror_tables
#print axioms Tcheran.Props.C16.mirror_involutive
#print axioms Tcheran.Props.C16.mirror_views_agree
#print axioms Tcheran.Props.C16.flip_vertically_spec
#print axioms Tcheran.Props.C16.demo_consistent
#print axioms Tcheran.Props.C16.demo_legal
#print axioms Tcheran.Props.C16.demo_mirror_legal
#print axioms Tcheran.Props.C16.demo_eval_mirror
#print axioms Tcheran.Props.C16.eval_along_game
