import TcheranVerif.Proofs.PickerMain
import TcheranVerif.Proofs.GenerateNodup
import TcheranVerif.Model.Search
import TcheranVerif.Proofs.LoudComplete
/-!
# C10 — the staged move picker yields every generated move exactly once

Model: `Model/Picker.lean` (`MovePicker::next`, block by block). The generator outputs, both scoring
functions, the hash move, both killers and the counter move are parameters (`Env`), so the theorems
hold for **every** content of the killer / counter / history tables, remembered moves that are not legal
here included (they are simply never found by the scans).

* `picker_perm` — with a hash move that is one of the generated moves, or none, the stream drained from a
  fresh picker is a permutation of `captures ++ quiets`: nothing missing, nothing extra, nothing twice.
* `loud_perm` — the captures-only picker yields a permutation of the capture list (captures and
  queen promotions, as generated).
* `drain_stable` — the stream does not depend on the fuel once it exceeds the measure: the model's loop
  ends because `next` answered `None`, as the Rust `while let Some(..)` loop does.
* `next_after_done` — at `Done` every further call answers `None` (the `unreachable!()` is unreachable).

Hypothesis `EnvOk` (the two generated lists are duplicate-free and disjoint) is discharged for the
engine's own generator by `envOk_of_generate` (from `generate_nodup`, C01), and
* `picker_stream_legal` — in every position meeting `PosH`, for every table content and any hash move that
  is legal or absent, the stream of the search's picker is a permutation of a list whose members are
  exactly the rules' legal moves: the statement of C10 over the composed models.
The tie of `Env` to the real generator and scoring is the ordered-stream correspondence.
-/
namespace Tcheran.Props.C10
open Tcheran Tcheran.Picker

theorem inv_new (env : Env) (hash : Option Move)
    (hh : ∀ h, hash = some h → h ∈ env.captures ∨ h ∈ env.quiets) : Inv env (Picker.new hash) :=
  { inj := fun i j hi _ _ => by simp [Picker.new] at hi
    ssize := rfl
    hashOk := fun h e => hh h e
    loudHash := fun c => by simp [Picker.new] at c
    loudStage := fun c => by simp [Picker.new] at c
    pre := fun _ => ⟨rfl, rfl, rfl, rfl⟩
    caps := fun c => by simp [Picker.new, afterCaps] at c
    noQuietsYet := fun c => by simp [Picker.new, afterCaps] at c
    loudBad := fun c => by simp [Picker.new] at c
    good := fun c => by simp [Picker.new] at c
    fbOk := fun fb c => by simp [Picker.new] at c
    quiets := fun c => by simp [Picker.new, afterQuiets] at c
    badIdx := fun c => by simp [Picker.new] at c
    quietIdx := fun c => by simp [Picker.new] at c }

theorem inv_newLoud (env : Env) : Inv env Picker.newLoud :=
  { inj := fun i j hi _ _ => by simp [Picker.newLoud] at hi
    ssize := rfl
    hashOk := fun h e => by simp [Picker.newLoud] at e
    loudHash := fun _ => rfl
    loudStage := fun _ => ⟨rfl, by simp [Picker.newLoud]⟩
    pre := fun _ => ⟨rfl, rfl, rfl, rfl⟩
    caps := fun c => by simp [Picker.newLoud, afterCaps] at c
    noQuietsYet := fun c => by simp [Picker.newLoud, afterCaps] at c
    loudBad := fun c => by simp [Picker.newLoud] at c
    good := fun c => by simp [Picker.newLoud] at c
    fbOk := fun fb c => by simp [Picker.newLoud] at c
    quiets := fun c => by simp [Picker.newLoud, afterQuiets] at c
    badIdx := fun c => by simp [Picker.newLoud] at c
    quietIdx := fun c => by simp [Picker.newLoud] at c }

/-- **C10, full picker**: every generated move exactly once, for every killer / counter / history content -/
theorem picker_perm (env : Env) (hE : EnvOk env) (hash : Option Move)
    (hh : ∀ h, hash = some h → h ∈ env.captures ∨ h ∈ env.quiets)
    (fuel : Nat) (hf : 10 * bound env < fuel) :
    (drain env fuel (Picker.new hash)).Perm (env.captures ++ env.quiets) := by
  have hmu : mu env (Picker.new hash) < fuel := by
    unfold mu work; simp only [Picker.new, rank]; omega
  obtain ⟨d, mem⟩ := drain_spec env hE fuel (Picker.new hash) (inv_new env hash hh) hmu
  have d2 : (env.captures ++ env.quiets).Nodup :=
    List.nodup_append.2 ⟨hE.capsNodup, hE.quietsNodup, fun a ha b hb e => hE.disjoint a ha (e ▸ hb)⟩
  refine (List.perm_ext_iff_of_nodup d d2).2 (fun x => ?_)
  rw [mem x, List.mem_append]
  unfold InP qs
  simp [Picker.new]

/-- **C10, captures-only picker**: every generated capture / queen promotion exactly once -/
theorem loud_perm (env : Env) (hE : EnvOk env) (fuel : Nat) (hf : 10 * bound env < fuel) :
    (drain env fuel Picker.newLoud).Perm env.captures := by
  have hmu : mu env Picker.newLoud < fuel := by
    unfold mu work; simp only [Picker.newLoud, rank]; omega
  obtain ⟨d, mem⟩ := drain_spec env hE fuel Picker.newLoud (inv_newLoud env) hmu
  refine (List.perm_ext_iff_of_nodup d hE.capsNodup).2 (fun x => ?_)
  rw [mem x]
  unfold InP qs
  simp [Picker.newLoud]

/-- the generator's output meets `EnvOk` (C01: nothing is generated twice) -/
theorem envOk_of_generate (T : SliderTables) (g : Game) (k : Sq) (h : PosH g k) (nm : Search.NodeMoves)
    (hnm : Search.nodeMoves g = some nm) (c : Search.Ctx) (plies : Nat) :
    EnvOk (Search.pickerEnv g nm c plies) := by
  unfold Search.nodeMoves at hnm
  cases hc : generateCaptures g with
  | none => rw [hc] at hnm; cases hnm
  | some cc =>
    obtain ⟨caps, cache⟩ := cc
    rw [hc] at hnm
    cases hq : generateQuiets g cache with
    | none =>
      change (do let quiets ← generateQuiets g cache; pure (⟨caps, quiets⟩ : Search.NodeMoves)) = some nm at hnm
      rw [hq] at hnm; cases hnm
    | some quiets =>
      change (do let quiets ← generateQuiets g cache; pure (⟨caps, quiets⟩ : Search.NodeMoves)) = some nm at hnm
      rw [hq] at hnm
      have e : nm = ⟨caps, quiets⟩ := (Option.some.inj hnm).symm
      subst e
      have hn := generate_nodup T g k h caps cache quiets hc hq
      rw [List.nodup_append] at hn
      exact ⟨hn.1, hn.2.1, fun x hx hx' => hn.2.2 x hx x hx' rfl⟩

/-- **C10 over the composed models**: the picker's stream is, up to order, a list consisting of exactly
the rules' legal moves, each once -/
theorem picker_stream_legal (T : SliderTables) (g : Game) (k : Sq) (h : PosH g k) (nm : Search.NodeMoves)
    (hnm : Search.nodeMoves g = some nm) (c : Search.Ctx) (plies : Nat) (hash : Option Move)
    (hh : ∀ m, hash = some m → m ∈ Rules.legalMoves (Rules.ofGame g))
    (fuel : Nat) (hf : 10 * bound (Search.pickerEnv g nm c plies) < fuel) :
    (drain (Search.pickerEnv g nm c plies) fuel (Picker.new hash)).Perm (nm.captures ++ nm.quiets) ∧
    (nm.captures ++ nm.quiets).Nodup ∧
    ∀ m, m ∈ nm.captures ++ nm.quiets ↔ m ∈ Rules.legalMoves (Rules.ofGame g) := by
  have hE := envOk_of_generate T g k h nm hnm c plies
  obtain ⟨caps, cache, quiets, h1, h2, h3⟩ := Tcheran.generate_exact T g k h
  have e : nm = ⟨caps, quiets⟩ := by
    unfold Search.nodeMoves at hnm
    rw [h1] at hnm
    change (do let quiets ← generateQuiets g cache; pure (⟨caps, quiets⟩ : Search.NodeMoves)) = some nm at hnm
    rw [h2] at hnm
    exact (Option.some.inj hnm).symm
  subst e
  refine ⟨picker_perm _ hE hash ?_ fuel hf, ?_, h3⟩
  · intro m hm
    exact List.mem_append.1 ((h3 m).2 (hh m hm))
  · exact List.nodup_append.2 ⟨hE.capsNodup, hE.quietsNodup, fun a ha b hb e => hE.disjoint a ha (e ▸ hb)⟩

/-- **C10, captures-only variant over the composed models**: in every position the stream of the captures-only
picker is duplicate-free, consists of legal moves, and contains **every legal capture** (en passant and capturing
promotions included) **and every queen promotion** -/
theorem loud_stream_complete (T : SliderTables) (g : Game) (k : Sq) (h : PosH g k) (nm : Search.NodeMoves)
    (hnm : Search.nodeMoves g = some nm) (c : Search.Ctx) (plies : Nat)
    (fuel : Nat) (hf : 10 * bound (Search.pickerEnv g nm c plies) < fuel) :
    (drain (Search.pickerEnv g nm c plies) fuel Picker.newLoud).Nodup ∧
    (∀ m ∈ drain (Search.pickerEnv g nm c plies) fuel Picker.newLoud, m ∈ Rules.legalMoves (Rules.ofGame g)) ∧
    (∀ m ∈ Rules.legalMoves (Rules.ofGame g), (m.isCapture = true ∨ m.flag = .promoQ) →
      m ∈ drain (Search.pickerEnv g nm c plies) fuel Picker.newLoud) := by
  have hE := envOk_of_generate T g k h nm hnm c plies
  have hp := loud_perm _ hE fuel hf
  obtain ⟨caps, cache, quiets, h1, h2, hall, hleg⟩ := Tcheran.loud_complete T g k h
  have e : nm = ⟨caps, quiets⟩ := by
    unfold Search.nodeMoves at hnm
    rw [h1] at hnm
    change (do let quiets ← generateQuiets g cache; pure (⟨caps, quiets⟩ : Search.NodeMoves)) = some nm at hnm
    rw [h2] at hnm
    exact (Option.some.inj hnm).symm
  subst e
  refine ⟨hp.nodup_iff.2 hE.capsNodup, fun m hm => hleg m (hp.mem_iff.1 hm), fun m hm hl => ?_⟩
  exact hp.mem_iff.2 (hall m hm hl)

/-- the stream does not depend on the fuel once it exceeds the measure -/
theorem drain_stable (env : Env) (hE : EnvOk env) : ∀ (f1 f2 : Nat) (st : State), Inv env st →
    mu env st < f1 → mu env st < f2 → drain env f1 st = drain env f2 st := by
  intro f1
  induction f1 with
  | zero => intro _ _ _ h; omega
  | succ n ih =>
    intro f2 st hinv h1 h2
    cases f2 with
    | zero => omega
    | succ m =>
      have hn := next_ok env hE st hinv
      unfold drain
      generalize next env st = p at hn
      obtain ⟨o, st'⟩ := p
      cases o with
      | none => rfl
      | some mv =>
        simp only at hn ⊢
        have := hn.mu_lt
        rw [ih m st' hn.inv (by omega) (by omega)]

/-- at `Done` every further call answers `None` -/
theorem next_after_done (env : Env) (st : State) (h : st.stage = .done) : next env st = (none, st) := by
  have e1 : sBest st = .ok st := by unfold sBest; rw [if_neg (by rw [h]; simp)]
  have e2 : sGenCaptures env st = .ok st := by unfold sGenCaptures; rw [if_neg (by rw [h]; simp)]
  have e3 : sGoodCaptures st = .ok st := by unfold sGoodCaptures; rw [if_neg (by rw [h]; simp)]
  have e4 : sGenQuiets env st = .ok st := by unfold sGenQuiets; rw [if_neg (by rw [h]; simp)]
  have e5 : sKiller1 env st = .ok st := by unfold sKiller1; rw [if_neg (by rw [h]; simp)]
  have e6 : sKiller2 env st = .ok st := by unfold sKiller2; rw [if_neg (by rw [h]; simp)]
  have e7 : sCounter env st = .ok st := by unfold sCounter; rw [if_neg (by rw [h]; simp)]
  have e8 : sBadCaptures st = .ok st := by unfold sBadCaptures; rw [if_neg (by rw [h]; simp)]
  have e9 : sScoreQuiets env st = .ok st := by unfold sScoreQuiets; rw [if_neg (by rw [h]; simp)]
  have e10 : sQuiets st = .ok st := by unfold sQuiets; rw [if_neg (by rw [h]; simp)]
  unfold next
  simp only [e1, e2, e3, e4, e5, e6, e7, e8, e9, e10, bind, Except.bind]

/-- non-vacuity: a concrete environment with a hash move that is a bad capture, a killer equal to the
counter move and a killer that is not a generated move meets the hypotheses -/
def demoEnv : Env :=
  { captures := [⟨12, 21, .capture⟩, ⟨12, 19, .capture⟩], quiets := [⟨12, 20, .quiet⟩, ⟨12, 28, .quiet⟩, ⟨6, 22, .quiet⟩],
    scoreTactical := fun m => if m.dst.val = 21 then -5 else goodCaptureScore + 7, scoreQuiet := fun m => m.dst.val,
    killer1 := some ⟨6, 22, .quiet⟩, killer2 := some ⟨1, 18, .quiet⟩, counter := some ⟨6, 22, .quiet⟩ }

example : EnvOk demoEnv := ⟨by simp [demoEnv], by simp [demoEnv], by simp [demoEnv]⟩
example : (⟨12, 21, .capture⟩ : Move) ∈ demoEnv.captures ∨ (⟨12, 21, .capture⟩ : Move) ∈ demoEnv.quiets := by
  simp [demoEnv]

end Tcheran.Props.C10
#print axioms Tcheran.Props.C10.inv_new
#print axioms Tcheran.Props.C10.inv_newLoud
#print axioms Tcheran.Props.C10.envOk_of_generate
#print axioms Tcheran.Props.C10.picker_stream_legal
#print axioms Tcheran.Props.C10.picker_perm
#print axioms Tcheran.Props.C10.loud_perm
#print axioms Tcheran.Props.C10.drain_stable
#print axioms Tcheran.Props.C10.next_after_done
#print axioms Tcheran.Props.C10.loud_stream_complete
