import TcheranVerif.Model.Search
namespace Tcheran.Props.C10
theorem placeholder : True := trivial
end Tcheran.Props.C10
#print axioms Tcheran.Props.C10.placeholder
