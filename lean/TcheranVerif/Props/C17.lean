import TcheranVerif.Model.Search
namespace Tcheran.Props.C17
theorem placeholder : True := trivial
end Tcheran.Props.C17
#print axioms Tcheran.Props.C17.placeholder
