import TcheranVerif.Model.UciMove
import TcheranVerif.Model.Movegen
import TcheranVerif.Proofs.PositionCmd
/-!
# C17 — the position command: move text, and unique matching of a text against the legal moves

* `move_text_roundtrip` — reading the long-algebraic text of any (source, destination, promotion)
  triple returns that triple and consumes exactly the text (all 64·64·5 triples, kernel decision):
  lower-case promotion letters, four or five characters.
* `notation_injective` — different triples have different texts.
* `expect_matching_unique` — on a duplicate-free move list in which (source, destination,
  promotion) determines the move (true of the legal moves of a position: C01), the first match of
  `expect_matching` is the only match, so the move played is the move meant.
* **`key_determines_move`** — in every position, among the legal moves of the rules (source, destination,
  promotion) determines the move, label included: the hypothesis of `expect_matching_unique` always holds.
* **`position_replays`** — for every legal start (views in agreement, `GInv`) and every game of legal moves
  given as move texts, the model of the `position` command (`generate_legal_moves`, `expect_matching`,
  `make_move`, move by move) answers with exactly the position the rules reach, and the invariant still
  holds there. One side condition is explicit: the 218-slot move list is not exceeded along the game.
The tie of this model to the binary is the UCI phase (`d fen`, `d perftdiv 1` after single commands and after
growing move lists of one game in one process, with and without `ucinewgame`).
-/
namespace Tcheran.Props.C17
open Tcheran Tcheran.UciMove

theorem move_text_roundtrip : ∀ src dst : Sq, ∀ p ∈ allPromos,
    parseMove (text ⟨src, dst, p⟩) = some (⟨src, dst, p⟩, []) := by decide +kernel

theorem notation_injective (a b : Text) (h : text a = text b) : a = b := by
  have ha : a.promotion ∈ allPromos := by
    cases a with
    | mk s d p => cases p with
      | none => simp [allPromos]
      | some q => cases q <;> simp [allPromos]
  have hb : b.promotion ∈ allPromos := by
    cases b with
    | mk s d p => cases p with
      | none => simp [allPromos]
      | some q => cases q <;> simp [allPromos]
  have e1 := move_text_roundtrip a.src a.dst a.promotion ha
  have e2 := move_text_roundtrip b.src b.dst b.promotion hb
  have ea : (⟨a.src, a.dst, a.promotion⟩ : Text) = a := by cases a; rfl
  have eb : (⟨b.src, b.dst, b.promotion⟩ : Text) = b := by cases b; rfl
  rw [ea] at e1
  rw [eb] at e2
  rw [h, e2] at e1
  simp only [Option.some.injEq, Prod.mk.injEq, and_true] at e1
  exact e1.symm

/-- the key a move is matched by -/
def keyOf (m : Move) : Text := ⟨m.src, m.dst, m.promotion⟩

/-- `MoveListExt::expect_matching` finds the first move with the given key -/
def expectMatching (legal : List Move) (t : Text) : Option Move := legal.find? (fun m => keyOf m = t)

theorem expect_matching_unique (legal : List Move) (t : Text) (m : Move)
    (hinj : ∀ a ∈ legal, ∀ b ∈ legal, keyOf a = keyOf b → a = b)
    (hm : m ∈ legal) (hk : keyOf m = t) : expectMatching legal t = some m := by
  unfold expectMatching
  cases hf : legal.find? (fun x => keyOf x = t) with
  | none =>
    have := List.find?_eq_none.1 hf m hm
    simp [hk] at this
  | some x =>
    have hx := List.find?_some hf
    have hxm := List.mem_of_find?_eq_some hf
    have : keyOf x = t := by simpa using hx
    rw [hinj x hxm m hm (this.trans hk.symm)]


open Rules in
/-- **key_determines_move** -/
theorem key_determines_move (pos : Rules.Pos) (a b : Move) (ha : a ∈ legalMoves pos) (hb : b ∈ legalMoves pos)
    (hk : UciMove.keyOf a = UciMove.keyOf b) : a = b := legal_key_inj pos a b ha hb hk

open Rules Game in
/-- **position_replays** -/
theorem position_replays (T : SliderTables) (ms : List Move) (g : Game) (pos' : Rules.Pos) (h : Search.SInv g)
    (hp : LegalPath (ofGame g) ms pos')
    (hfit : ∀ k gk, makeMoves theCfg g (ms.take k) = some gk → (generateLegal gk).isSome = true) :
    ∃ g', UciMove.positionCmd g (ms.map UciMove.keyOf) = some g' ∧ ofGame g' = pos' ∧ Search.SInv g' := by
  obtain ⟨g', h1, _, h3, h4⟩ := Tcheran.position_replays T ms g pos' h hp hfit
  exact ⟨g', h1, h3, h4⟩

/-- castling is written as the king's move: the text of a castling move is `e1g1`-style, not `O-O` -/
example : text (keyOf (Move.castles E1 G1)) = "e1g1".toList := by decide
example : text (keyOf (Move.capturePromotion ⟨52, by decide⟩ ⟨61, by decide⟩ .knight)) = "e7f8n".toList := by decide

end Tcheran.Props.C17
#print axioms Tcheran.Props.C17.move_text_roundtrip
#print axioms Tcheran.Props.C17.notation_injective
#print axioms Tcheran.Props.C17.expect_matching_unique
#print axioms Tcheran.Props.C17.key_determines_move
#print axioms Tcheran.Props.C17.position_replays
