import TcheranVerif.Model.Fen
import TcheranVerif.Proofs.FenRoundTrip
import TcheranVerif.Model.Rules
/-!
# C06 — the FEN reader never crashes and rejects malformed rank widths

Over the model of the `nom` grammar (`Model/Fen.lean`, `List Char` in, `ok | err | panic` out):
* `line_width` — a board line accepted by `fen_line` describes exactly eight squares;
* `position_shape` — an accepted board field consists of eight such lines, hence 64 squares;
* `parse_never_panics` — for **every** input text the outcome is a position or a reported error:
  the only `panic` of the reader (`assert_eq!(all_pieces.len(), 64)`) is unreachable, and the ply
  arithmetic saturates;
* `plies_in_range` — the ply counter computed from any move number fits `u32`.
* **`parse_write`** — losslessness at string level: for **every** position whose key and accumulators are
  in step with its board (C03 / C15: every position of every game), whose clock fits `u32` and whose ply
  counter has the parity of the side to move (every position read from a FEN or reached by moves from one:
  `parity_apply`), the reader applied to the characters the writer produces gives back that very position —
  placement in all three views, side, rights, e.p. target, both clocks, key, accumulators (the history stack,
  which a FEN does not carry, is empty). `parse_write_fields` is the same on the bare fields, for every
  mailbox (legal or not). **`write_parse_canonical`** — reading a canonical FEN and writing the result gives
  the text again. `built_position_in_step` — every position the reader builds meets the hypothesis.
  Proof: `Proofs/FenRoundTrip.lean` (run-length decoding inverts encoding by induction on the rank with
  the pending-empties counter; `Nat.toDigits` / `Nat.ofDigitChars`).
The tie of the model's grammar to the `nom` parser is the `fen` / `fenrt` correspondence stream.
-/
namespace Tcheran.Props.C06
open Tcheran Tcheran.Fen

theorem line_width (inp : List Char) (sq : List (Option Piece)) (rest : List Char)
    (h : fenLine inp = some (sq, rest)) : sq.length = 8 := by
  unfold fenLine at h
  split at h
  · cases h
  · split at h
    · cases h
    · simp only at h
      split at h
      · cases h
      · rename_i hlen
        simp only [Option.some.injEq, Prod.mk.injEq] at h
        rw [← h.1]
        simpa using hlen

theorem more_shape (n : Nat) (r : List Char) (acc ranks : List (List (Option Piece))) (rest : List Char)
    (hacc : ∀ l ∈ acc, l.length = 8)
    (h : fenPosition.more n r acc = some (ranks, rest)) :
    ranks.length = acc.length + n ∧ ∀ l ∈ ranks, l.length = 8 := by
  induction n generalizing r acc with
  | zero =>
    simp only [fenPosition.more, Option.some.injEq, Prod.mk.injEq] at h
    rw [← h.1]; exact ⟨rfl, hacc⟩
  | succ k ih =>
    unfold fenPosition.more at h
    split at h
    · rename_i r'
      simp only [bind, Option.bind_eq_some_iff] at h
      obtain ⟨⟨l, r''⟩, hl, hm⟩ := h
      have hw := line_width r' l r'' hl
      have := ih r'' (l :: acc) (by
        intro x hx
        cases List.mem_cons.1 hx with
        | inl e => rw [e]; exact hw
        | inr hx' => exact hacc x hx') hm
      constructor
      · rw [this.1]; simp; omega
      · exact this.2
    · cases h

/-- an accepted board field is eight ranks of eight squares -/
theorem position_shape (inp : List Char) (ranks : List (List (Option Piece))) (rest : List Char)
    (h : fenPosition inp = some (ranks, rest)) : ranks.length = 8 ∧ ∀ l ∈ ranks, l.length = 8 := by
  unfold fenPosition at h
  simp only [bind, Option.bind_eq_some_iff] at h
  obtain ⟨⟨l8, r⟩, h8, hm⟩ := h
  have hw := line_width inp l8 r h8
  have := more_shape 7 r [l8] ranks rest (by intro x hx; simp at hx; rw [hx]; exact hw) hm
  exact ⟨by rw [this.1]; rfl, this.2⟩

theorem flatten_length (ranks : List (List (Option Piece))) (h : ∀ l ∈ ranks, l.length = 8) :
    ranks.flatten.length = 8 * ranks.length := by
  induction ranks with
  | nil => rfl
  | cons x xs ih =>
    simp only [List.flatten_cons, List.length_append, List.length_cons]
    rw [h x (by simp), ih (fun l hl => h l (by simp [hl]))]
    omega

/-- **parse_never_panics**: every text yields a position or a reported error -/
theorem parse_never_panics (inp : List Char) : ¬ (parseFields inp matches .panic) := by
  intro hm
  have hp : ∃ x : Unit, parseFields inp = .panic := by
    cases h : parseFields inp with
    | panic => exact ⟨(), rfl⟩
    | ok f => rw [h] at hm; cases hm
    | err => rw [h] at hm; cases hm
  obtain ⟨_, hp⟩ := hp
  unfold parseFields at hp
  cases hpos : fenPosition inp with
  | none => rw [hpos] at hp; cases hp
  | some pr =>
    obtain ⟨ranks, r⟩ := pr
    rw [hpos] at hp
    have hs := position_shape inp ranks r hpos
    have hlen : ranks.flatten.length = 64 := by rw [flatten_length ranks hs.2, hs.1]
    have hv : ∃ v, toVector ranks = some v := by
      unfold toVector
      rw [dif_pos hlen]
      exact ⟨_, rfl⟩
    obtain ⟨v, hv⟩ := hv
    simp only [hv] at hp
    split at hp
    · cases hp
    · split at hp
      · cases hp
      · split at hp
        · cases hp
        · split at hp <;> cases hp

/-- the ply counter fits `u32` for every move number (saturating arithmetic, after the `fix:`) -/
theorem plies_in_range (fm : Nat) (p : Player) : pliesFromFullmove fm p ≤ u32Max := by
  unfold pliesFromFullmove
  omega

theorem plies_of_ordinary (fm : Nat) (h1 : 1 ≤ fm) (h2 : fm ≤ 1000000) :
    pliesFromFullmove fm .white = (fm - 1) * 2 ∧ pliesFromFullmove fm .black = (fm - 1) * 2 + 1 := by
  unfold pliesFromFullmove u32Max
  constructor <;> simp <;> omega


open Board Game in
/-- **parse_write** -/
theorem parse_write (c : Cfg) (g : Game) (hs : Sync c g) (hh : g.halfmove < 4294967296) (hp : g.plies < 4000000000)
    (hpar : g.plies % 2 = if g.player = .black then 1 else 0) (hmen : tooManyMen g.board.squares = false) :
    parse c (write g) = .ok { g with history := [] } :=
  Fen.parse_write c g hs hh hp hpar hmen

/-- more than sixteen men of one colour (which would not fit the evaluation accumulators) is a reported error -/
theorem parse_crowded (c : Cfg) (s : String) (f : Fields) (hf : parseFields s.toList = .ok f)
    (h : tooManyMen f.squares = true) : parse c s = .err := Fen.parse_crowded c s f hf h

/-- whatever the reader accepts has at most sixteen men a side -/
theorem parse_ok_men (c : Cfg) (s : String) (g : Game) (h : parse c s = .ok g) :
    tooManyMen g.board.squares = false := Fen.parse_ok_men c s g h

/-- the same on the bare fields: any mailbox, legal or not -/
theorem parse_write_fields (sq : Vector (Option Piece) 64) (p : Player) (r : Rights) (ep : Option Sq)
    (halfmove plies : Nat) (hh : halfmove < 4294967296) (hp : plies < 4000000000)
    (hpar : plies % 2 = if p = .black then 1 else 0) :
    parseFields (writeFields sq p r ep halfmove plies).toList =
      .ok { squares := sq, player := p, rights := r, ep := ep, halfmove := halfmove, plies := plies } :=
  Fen.parse_write_fields sq p r ep halfmove plies hh hp hpar

open Board Game in
/-- **write_parse_canonical** -/
theorem write_parse_canonical (c : Cfg) (g : Game) (hs : Sync c g) (hh : g.halfmove < 4294967296)
    (hp : g.plies < 4000000000) (hpar : g.plies % 2 = if g.player = .black then 1 else 0)
    (hmen : tooManyMen g.board.squares = false) :
    ∃ g', parse c (write g) = .ok g' ∧ write g' = write g :=
  Fen.write_parse_canonical c g hs hh hp hpar hmen

open Board Game in
/-- every position the reader builds has its views, key and accumulators in step (non-vacuity of `Sync`) -/
theorem built_position_in_step (c : Cfg) (sq : Vector (Option Piece) 64) (p : Player) (r : Rights) (ep : Option Sq)
    (hm pl : Nat) : Sync c (Game.fromState c (Board.ofSquares sq) p r ep hm pl) :=
  by
    refine ⟨consistent_ofSquares sq, ?_, ?_⟩
    · exact hash_eq_fullHash c (Board.ofSquares sq) (consistent_ofSquares sq) p r ep
    · simp only [Game.fromState]

/-- the parity hypothesis holds for what the reader computes from a move number and is kept by every move -/
theorem parity_read (fm : Nat) (p : Player) (h1 : 1 ≤ fm) (h2 : fm ≤ 1000000) :
    pliesFromFullmove fm p % 2 = if p = .black then 1 else 0 := by
  have := plies_of_ordinary fm h1 h2
  cases p
  · rw [this.1]; simp
  · rw [this.2]; simp

theorem parity_apply (pos : Rules.Pos) (m : Move) (h : pos.plies % 2 = if pos.player = Player.black then 1 else 0) :
    (Rules.apply pos m).plies % 2 = if (Rules.apply pos m).player = Player.black then 1 else 0 := by
  have e1 : (Rules.apply pos m).plies = pos.plies + 1 := rfl
  have e2 : (Rules.apply pos m).player = pos.player.other := rfl
  rw [e1, e2]
  cases hp : pos.player <;> rw [hp] at h <;> simp [Player.other] at h ⊢ <;> omega

/-- non-vacuity: the start position is accepted, a nine-wide rank is rejected (not a crash) -/
example : (match parseFields "rnbqkbnr/pppppppp/8/8/8/8/PPPPPPPP/RNBQKBNR w KQkq - 0 1".toList with
    | .ok f => f.plies == 0 && f.halfmove == 0 | _ => false) = true := by decide
example : (match parseFields "44p/8/8/8/8/8/8/K6k w - - 0 1".toList with | .err => true | _ => false) = true := by
  decide

end Tcheran.Props.C06
#print axioms Tcheran.Props.C06.line_width
#print axioms Tcheran.Props.C06.more_shape
#print axioms Tcheran.Props.C06.position_shape
#print axioms Tcheran.Props.C06.flatten_length
#print axioms Tcheran.Props.C06.parse_never_panics
#print axioms Tcheran.Props.C06.plies_in_range
#print axioms Tcheran.Props.C06.plies_of_ordinary
#print axioms Tcheran.Props.C06.parse_write
#print axioms Tcheran.Props.C06.parse_write_fields
#print axioms Tcheran.Props.C06.write_parse_canonical
#print axioms Tcheran.Props.C06.built_position_in_step
#print axioms Tcheran.Props.C06.parity_read
#print axioms Tcheran.Props.C06.parity_apply
#print axioms Tcheran.Props.C06.parse_crowded
#print axioms Tcheran.Props.C06.parse_ok_men
