import TcheranVerif.Model.Eval
namespace Tcheran.Props.C06
theorem placeholder : True := trivial
end Tcheran.Props.C06
#print axioms Tcheran.Props.C06.placeholder
