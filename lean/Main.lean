import TcheranVerif.Driver.GenPos
import TcheranVerif.Model.Geometry
/-!
# tvdriver — the model behind the line protocol

`tvdriver serve`: one request per line on stdin, one answer per line on stdout, as
`<engine-model answer> TAB <specification answer>` (the second is `-` when the request has no
separate specification). `tvdriver gen <stream> <seed> <n>` prints request lines.
-/

open Tcheran Tcheran.Driver

def sqOfIdx (t : String) : Option Sq :=
  match t.toNat? with
  | some n => if h : n < 64 then some ⟨n, h⟩ else none
  | none => none

def hexDigit? (c : Char) : Option Nat :=
  if '0' ≤ c ∧ c ≤ '9' then some (c.toNat - 48)
  else if 'a' ≤ c ∧ c ≤ 'f' then some (c.toNat - 87)
  else if 'A' ≤ c ∧ c ≤ 'F' then some (c.toNat - 55)
  else none

def bbOfHex (t : String) : Option BB :=
  t.toList.foldl (fun acc c => do
    let a ← acc
    let d ← hexDigit? c
    pure (a * 16 + d)) (some 0) |>.map (BitVec.ofNat 64)

def movesAnswer (g : Game) : String :=
  match generateCaptures g with
  | none => "panic"
  | some (caps, cache) =>
    match generateQuiets g cache, generateLegal g with
    | some quiets, some legal =>
      let chk := match kingInCheck g.board g.player with
        | some b => boolDigit b
        | none => "panic"
      s!"check={chk} n={legal.length} ncaps={caps.length} staged={boolDigit (caps ++ quiets == legal)} sorted=[{sortedMoves legal}] order=[{" ".intercalate (legal.map Move.text)}]"
    | _, _ => "panic"

def movesSpec (p : Rules.Pos) : String :=
  let legal := Rules.legalMoves p
  s!"check={boolDigit (Rules.inCheck p.board p.player)} n={legal.length} sorted=[{sortedMoves legal}]"

/-- `play`: model and specification run side by side over the op list -/
def playAnswer (start : Position) (ops : List String) : String × String :=
  let rec go (ops : List String) (g : Option Game) (stack : List Rules.Pos) (nulls : Nat)
      (accM accS : List String) : List String × List String :=
    match ops with
    | [] => (accM.reverse, accS.reverse)
    | op :: rest =>
      let g' : Option Game := g.bind fun g =>
        match op with
        | "null" => some (Game.makeNull theCfg g)
        | "undo" => Game.undoMove g
        | "undonull" => Game.undoNull g
        | mv => (parseMove mv).bind (Game.makeMove theCfg g)
      let (stack', nulls') : List Rules.Pos × Nat :=
        match op, stack with
        | "null", cur :: _ =>
          ({ cur with player := cur.player.other, ep := none, plies := cur.plies + 1 } :: stack, nulls + 1)
        | "undo", _ :: tl => (tl, nulls)
        | "undonull", _ :: tl => (tl, nulls - 1)
        | mv, cur :: _ =>
          match parseMove mv with
          | some m => (Rules.apply cur m :: stack, nulls)
          | none => (stack, nulls)
        | _, [] => (stack, nulls)
      let m := match g' with
        | some g => dumpGame g
        | none => "panic"
      let s := match stack' with
        | cur :: earlier => dumpSpec cur (if nulls' = 0 then some (Rules.isRepeated cur earlier) else none)
        | [] => "-"
      go rest g' stack' nulls' (m :: accM) (s :: accS)
  let (ms, ss) := go ops (some start.game) [start.pos] 0
    [dumpGame start.game] [dumpSpec start.pos (some false)]
  (" ; ".intercalate ms, " ; ".intercalate ss)

def fenAnswer (text : String) : String :=
  match Fen.parse theCfg text with
  | .ok g => s!"ok {dumpGame g} W={Fen.write g}"
  | .err => "err"
  | .panic => "panic"

def handle (line : String) : String × String :=
  let f := line.splitOn "\t"
  let bad := ("bad-request", "-")
  match f with
  | ["rook", s, o] =>
    match sqOfIdx s, bbOfHex o with
    | some s, some o => (hex (rookAttacks s o), hex (Geometry.rookSpec s o))
    | _, _ => bad
  | ["bishop", s, o] =>
    match sqOfIdx s, bbOfHex o with
    | some s, some o => (hex (bishopAttacks s o), hex (Geometry.bishopSpec s o))
    | _, _ => bad
  | ["knight", s] =>
    match sqOfIdx s with
    | some s => (hex (knightAttacks s), hex (Geometry.knightSpec s))
    | none => bad
  | ["king", s] =>
    match sqOfIdx s with
    | some s => (hex (kingAttacks s), hex (Geometry.kingSpec s))
    | none => bad
  | ["pawn", s, c] =>
    match sqOfIdx s with
    | some s =>
      let p := if c == "w" then Player.white else Player.black
      (hex (pawnAttacks s p), hex (Geometry.pawnSpec s p))
    | none => bad
  | ["between", a, b] =>
    match sqOfIdx a, sqOfIdx b with
    | some a, some b => (hex (between a b), hex (Geometry.betweenSpec a b))
    | _, _ => bad
  | ["moves", fen] =>
    match readPosition fen with
    | some p => (movesAnswer p.game, movesSpec p.pos)
    | none => bad
  | ["play", fen, ops] =>
    match readPosition fen with
    | some p => playAnswer p ((ops.splitOn " ").filter (· ≠ ""))
    | none => bad
  | ["play", fen] =>
    match readPosition fen with
    | some p => playAnswer p []
    | none => bad
  | ["fen", text] => (fenAnswer text, "-")
  | ["fenwrite", fen] =>
    match readPosition fen with
    | some p => (Fen.write p.game, posText p.pos)
    | none => bad
  | _ => bad

partial def serveLoop (h : IO.FS.Stream) (out : IO.FS.Stream) : IO Unit := do
  let line ← h.getLine
  if line.isEmpty then return ()
  let line := String.ofList (line.toList.filter (fun c => c != '\n' && c != '\r'))
  if line.isEmpty then
    serveLoop h out
  else
    let (m, s) := handle line
    out.putStrLn (m ++ "\t" ++ s)
    serveLoop h out

/-! ## generators -/

def depositBits (positions : List Sq) (k : Nat) : BB :=
  (positions.zipIdx.foldl (fun acc (p : Sq × Nat) =>
    if (k >>> p.2) % 2 == 1 then acc ||| bb p.1 else acc) 0#64)

/-- relevant-blocker squares from first principles: ray squares that have a further square behind -/
def relevantSquares (dirs : List Dir) (s : Sq) : List Sq :=
  dirs.flatMap fun d => (Rules.ray d s).dropLast

def genC07 (seed n : Nat) : IO Unit := do
  let out ← IO.getStdout
  for s in List.finRange 64 do
    out.putStrLn s!"knight\t{s.val}"
    out.putStrLn s!"king\t{s.val}"
    out.putStrLn s!"pawn\t{s.val}\tw"
    out.putStrLn s!"pawn\t{s.val}\tb"
    for t in List.finRange 64 do
      out.putStrLn s!"between\t{s.val}\t{t.val}"
  for s in List.finRange 64 do
    let rs := relevantSquares Dir.cardinal s
    for k in List.range (2 ^ rs.length) do
      out.putStrLn s!"rook\t{s.val}\t{hex (depositBits rs k)}"
    let bs := relevantSquares Dir.diagonal s
    for k in List.range (2 ^ bs.length) do
      out.putStrLn s!"bishop\t{s.val}\t{hex (depositBits bs k)}"
  -- random full occupancies (irrelevant bits set)
  let mut r := Rng.ofSeed seed
  for _ in List.range n do
    let (r1, a) := r.next
    let (r2, b) := r1.next
    let (r3, sq) := r2.below 64
    let (r4, dense) := r3.below 3
    r := r4
    let occ : UInt64 := if dense == 0 then a else if dense == 1 then a &&& b else a ||| b
    out.putStrLn s!"rook\t{sq}\t{hex (BitVec.ofNat 64 occ.toNat)}"
    out.putStrLn s!"bishop\t{sq}\t{hex (BitVec.ofNat 64 occ.toNat)}"

/-- positions: random legal placements plus playouts from the start position and from `roots` -/
def genPositions (seed n : Nat) (roots : List String) : List Rules.Pos := Id.run do
  let mut r := Rng.ofSeed seed
  let mut acc : List Rules.Pos := []
  let rootPos := (startFen :: roots).filterMap fun f => (readPosition f).map (·.pos)
  -- one third: playouts
  let mut i := 0
  while acc.length < n / 3 do
    let (r1, root) := r.pick rootPos
    let (r2, len) := r1.below 80
    let (r3, ps, _) := playout r2 root (len + 1)
    r := r3
    acc := (ps.drop (ps.length / 2)).take 12 ++ acc
    i := i + 1
  while acc.length < n do
    let (r1, sparse) := r.below 3
    let (r2, p) := randomLegal r1 (if sparse == 0 then 6 else if sparse == 1 then 14 else 28)
    r := r2
    acc := p :: acc
  return acc.take n

def readLines (path : String) : IO (List String) := do
  if path == "-" then return []
  let txt ← IO.FS.readFile path
  return (txt.splitOn "\n").filter (fun l => l.trimAscii.toString ≠ "" && !l.startsWith "#")

def genMoves (seed n : Nat) (rootsFile : String) : IO Unit := do
  let roots ← readLines rootsFile
  let out ← IO.getStdout
  for f in roots do
    if (readPosition f).isSome then out.putStrLn s!"moves\t{f}"
  for p in genPositions seed n roots do
    out.putStrLn s!"moves\t{posText p}"

/-- op sequences: playouts with nested null moves and take-backs, always balanced on exit or not —
    both are legal histories of a search -/
def genPlay (seed n : Nat) (rootsFile : String) : IO Unit := do
  let roots ← readLines rootsFile
  let out ← IO.getStdout
  let mut r := Rng.ofSeed (seed + 17)
  let starts := genPositions seed n roots
  for p in starts do
    let (r1, len) := r.below 40
    let (r2, withNulls) := r1.below 3
    r := r2
    -- walk with an explicit stack so that undo ops are well formed
    let mut cur := p
    let mut stack : List (Rules.Pos × Bool) := []   -- (position before the op, op was null)
    let mut ops : List String := []
    let mut lastNull := false
    for _ in List.range (len + 1) do
      let (r3, choice) := r.below 10
      r := r3
      if choice < 2 && !stack.isEmpty then
        match stack with
        | (prev, wasNull) :: tl =>
          ops := (if wasNull then "undonull" else "undo") :: ops
          cur := prev
          stack := tl
          lastNull := match tl with | (_, wn) :: _ => wn | [] => false
        | [] => pure ()
      else if choice == 2 && withNulls == 0 && !lastNull && !(Rules.inCheck cur.board cur.player) then
        stack := (cur, true) :: stack
        cur := { cur with player := cur.player.other, ep := none, plies := cur.plies + 1 }
        ops := "null" :: ops
        lastNull := true
      else
        let (r4, m) := pickWeighted r (Rules.legalMoves cur)
        r := r4
        match m with
        | some m =>
          stack := (cur, false) :: stack
          cur := Rules.apply cur m
          ops := m.text :: ops
          lastNull := false
        | none => pure ()
    out.putStrLn s!"play\t{posText p}\t{" ".intercalate ops.reverse}"

def main (args : List String) : IO UInt32 := do
  match args with
  | ["serve"] =>
    serveLoop (← IO.getStdin) (← IO.getStdout)
    return 0
  | ["gen", "c07", seed, n] => genC07 seed.toNat! n.toNat!; return 0
  | ["gen", "moves", seed, n, roots] => genMoves seed.toNat! n.toNat! roots; return 0
  | ["gen", "play", seed, n, roots] => genPlay seed.toNat! n.toNat! roots; return 0
  | _ =>
    IO.eprintln "usage: tvdriver serve | gen <stream> <seed> <n> [roots-file]"
    return 2
