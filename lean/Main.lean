import TcheranVerif.Driver.Gens2
import TcheranVerif.Model.Geometry
/-!
# tvdriver — the model behind the line protocol

`tvdriver serve`: one request per line on stdin, one answer per line on stdout, as
`<engine-model answer> TAB <specification answer>` (the second is `-` when the request has no
separate specification). `tvdriver gen <stream> <seed> <n>` prints request lines.
-/

open Tcheran Tcheran.Driver

def sqOfIdx (t : String) : Option Sq :=
  match t.toNat? with
  | some n => if h : n < 64 then some ⟨n, h⟩ else none
  | none => none

def hexDigit? (c : Char) : Option Nat :=
  if '0' ≤ c ∧ c ≤ '9' then some (c.toNat - 48)
  else if 'a' ≤ c ∧ c ≤ 'f' then some (c.toNat - 87)
  else if 'A' ≤ c ∧ c ≤ 'F' then some (c.toNat - 55)
  else none

def bbOfHex (t : String) : Option BB :=
  t.toList.foldl (fun acc c => do
    let a ← acc
    let d ← hexDigit? c
    pure (a * 16 + d)) (some 0) |>.map (BitVec.ofNat 64)

def movesAnswer (g : Game) : String :=
  match generateCaptures g with
  | none => "panic"
  | some (caps, cache) =>
    match generateQuiets g cache, generateLegal g with
    | some quiets, some legal =>
      let chk := match kingInCheck g.board g.player with
        | some b => boolDigit b
        | none => "panic"
      s!"check={chk} n={legal.length} ncaps={caps.length} staged={boolDigit (caps ++ quiets == legal)} sorted=[{sortedMoves legal}] order=[{" ".intercalate (legal.map Move.text)}]"
    | _, _ => "panic"

def posFeatures (p : Rules.Pos) (legal : List Move) : List String :=
  let pseudo := Rules.pseudoMoves p
  let chk := Rules.inCheck p.board p.player
  let illegalNonKing := pseudo.any fun m =>
    !(legal.contains m) && (Rules.at' p.board m.src).any (fun pc => pc.kind != .king) && !m.isEnPassant
  let r := p.rights.forP p.player
  let f (b : Bool) (n : String) : List String := if b then [n] else []
  f chk "check" ++ f (chk && !(pseudo.any fun m => legal.contains m && (Rules.at' p.board m.src).any (fun pc => pc.kind != .king))) "check-king-moves-only"
    ++ f p.ep.isSome "ep-target" ++ f (legal.any (·.isEnPassant)) "ep-legal"
    ++ f (pseudo.any (fun m => m.isEnPassant && !(legal.contains m))) "ep-illegal"
    ++ f (!chk && illegalNonKing) "pinned"
    ++ f (r.kingSide || r.queenSide) "castle-right" ++ f (legal.any (·.isCastling)) "castle-legal"
    ++ f ((r.kingSide || r.queenSide) && !(legal.any (·.isCastling))) "castle-blocked"
    ++ f (legal.any (·.isPromotion)) "promotion" ++ f (chk && legal.any (·.isPromotion)) "promotion-in-check"
    ++ f legal.isEmpty "no-legal-move"

def movesSpec (p : Rules.Pos) : String :=
  let legal := Rules.legalMoves p
  s!"check={boolDigit (Rules.inCheck p.board p.player)} n={legal.length} sorted=[{sortedMoves legal}] F={",".intercalate (posFeatures p legal)}"

/-- `play`: model and specification run side by side over the op list -/
def playAnswer (start : Position) (ops : List String) : String × String :=
  let rec go (ops : List String) (g : Option Game) (stack : List Rules.Pos) (nulls : Nat)
      (accM accS : List String) : List String × List String :=
    match ops with
    | [] => (accM.reverse, accS.reverse)
    | op :: rest =>
      let g' : Option Game := g.bind fun g =>
        match op with
        | "null" => some (Game.makeNull theCfg g)
        | "undo" => Game.undoMove g
        | "undonull" => Game.undoNull g
        | mv => (parseMove mv).bind (Game.makeMove theCfg g)
      let (stack', nulls') : List Rules.Pos × Nat :=
        match op, stack with
        | "null", cur :: _ =>
          ({ cur with player := cur.player.other, ep := none, plies := cur.plies + 1 } :: stack, nulls + 1)
        | "undo", _ :: tl => (tl, nulls)
        | "undonull", _ :: tl => (tl, nulls - 1)
        | mv, cur :: _ =>
          match parseMove mv with
          | some m => (Rules.apply cur m :: stack, nulls)
          | none => (stack, nulls)
        | _, [] => (stack, nulls)
      let m := match g' with
        | some g => dumpGame g
        | none => "panic"
      let s := match stack' with
        | cur :: earlier => dumpSpec cur (if nulls' = 0 then some (Rules.isRepeated cur earlier) else none)
        | [] => "-"
      go rest g' stack' nulls' (m :: accM) (s :: accS)
  let (ms, ss) := go ops (some start.game) [start.pos] 0
    [dumpGame start.game] [dumpSpec start.pos (some false)]
  (" ; ".intercalate ms, " ; ".intercalate ss)

def fenAnswer (text : String) : String :=
  match Fen.parse theCfg text with
  | .ok g => s!"ok {dumpGame g} W={Fen.write g}"
  | .err => "err"
  | .panic => "panic"

def handle (line : String) : String × String :=
  let f := line.splitOn "\t"
  match f with
  | ["rook", s, o] =>
    match sqOfIdx s, bbOfHex o with
    | some s, some o => (hex (rookAttacks s o), hex (Geometry.rookSpec s o))
    | _, _ => bad
  | ["bishop", s, o] =>
    match sqOfIdx s, bbOfHex o with
    | some s, some o => (hex (bishopAttacks s o), hex (Geometry.bishopSpec s o))
    | _, _ => bad
  | ["knight", s] =>
    match sqOfIdx s with
    | some s => (hex (knightAttacks s), hex (Geometry.knightSpec s))
    | none => bad
  | ["king", s] =>
    match sqOfIdx s with
    | some s => (hex (kingAttacks s), hex (Geometry.kingSpec s))
    | none => bad
  | ["pawn", s, c] =>
    match sqOfIdx s with
    | some s =>
      let p := if c == "w" then Player.white else Player.black
      (hex (pawnAttacks s p), hex (Geometry.pawnSpec s p))
    | none => bad
  | ["between", a, b] =>
    match sqOfIdx a, sqOfIdx b with
    | some a, some b => (hex (between a b), hex (Geometry.betweenSpec a b))
    | _, _ => bad
  | ["moves", fen] =>
    match readPosition fen with
    | some p => (movesAnswer p.game, movesSpec p.pos)
    | none => bad
  | ["play", fen, ops] =>
    match readPosition fen with
    | some p => playAnswer p ((ops.splitOn " ").filter (· ≠ ""))
    | none => bad
  | ["play", fen] =>
    match readPosition fen with
    | some p => playAnswer p []
    | none => bad
  | "fen" :: rest => (fenAnswer ("\t".intercalate rest), "-")
  | ["fenrt", fen] =>
    match readPosition fen with
    | some p =>
      let w := Fen.write p.game
      (s!"W={w} G0={dumpGame p.game} G1={fenAnswer w}", "-")
    | none => bad
  | ["tt", mb, ops] => ttHandle mb ops
  | ["tt", mb] => ttHandle mb ""
  | "limits" :: rest => limitsHandle rest
  | ["evalpair", a, b] => evalpairHandle a b
  | ["evalplay", fen, ops] => evalplayHandle fen ops
  | ["evalplay", fen] => evalplayHandle fen ""
  | ["blend", mg, eg, ph] => blendHandle mg eg ph
  | ["see", a, b] => seeHandle a b
  | ["san", fen] => sanHandle fen
  | "picker" :: rest => pickerHandle rest
  | ["search", mb, jobs] => searchHandle mb jobs
  | ["verify", fen, played, best, infos] => verifyHandle fen played best infos
  | ["ctl", cmds] => ctlHandle cmds
  | "ucimoves" :: rest => ucimovesHandle ("\t".intercalate rest)
  | ["game", fen, moves] => gameHandle fen moves
  | ["game", fen] => gameHandle fen ""
  | _ => bad

partial def serveLoop (h : IO.FS.Stream) (out : IO.FS.Stream) : IO Unit := do
  let line ← h.getLine
  if line.isEmpty then return ()
  let line := String.ofList (line.toList.filter (fun c => c != '\n' && c != '\r'))
  if line.isEmpty then
    serveLoop h out
  else
    let (m, s) := handle line
    out.putStrLn (m ++ "\t" ++ s)
    serveLoop h out

/-! ## generators -/

def depositBits (positions : List Sq) (k : Nat) : BB :=
  (positions.zipIdx.foldl (fun acc (p : Sq × Nat) =>
    if (k >>> p.2) % 2 == 1 then acc ||| bb p.1 else acc) 0#64)

/-- relevant-blocker squares from first principles: ray squares that have a further square behind -/
def relevantSquares (dirs : List Dir) (s : Sq) : List Sq :=
  dirs.flatMap fun d => (Rules.ray d s).dropLast

def genC07 (seed n : Nat) : IO Unit := do
  let out ← IO.getStdout
  for s in List.finRange 64 do
    out.putStrLn s!"knight\t{s.val}"
    out.putStrLn s!"king\t{s.val}"
    out.putStrLn s!"pawn\t{s.val}\tw"
    out.putStrLn s!"pawn\t{s.val}\tb"
    for t in List.finRange 64 do
      out.putStrLn s!"between\t{s.val}\t{t.val}"
  for s in List.finRange 64 do
    let rs := relevantSquares Dir.cardinal s
    for k in List.range (2 ^ rs.length) do
      out.putStrLn s!"rook\t{s.val}\t{hex (depositBits rs k)}"
    let bs := relevantSquares Dir.diagonal s
    for k in List.range (2 ^ bs.length) do
      out.putStrLn s!"bishop\t{s.val}\t{hex (depositBits bs k)}"
  -- random full occupancies (irrelevant bits set)
  let mut r := Rng.ofSeed seed
  for _ in List.range n do
    let (r1, a) := r.next
    let (r2, b) := r1.next
    let (r3, sq) := r2.below 64
    let (r4, dense) := r3.below 3
    r := r4
    let occ : UInt64 := if dense == 0 then a else if dense == 1 then a &&& b else a ||| b
    out.putStrLn s!"rook\t{sq}\t{hex (BitVec.ofNat 64 occ.toNat)}"
    out.putStrLn s!"bishop\t{sq}\t{hex (BitVec.ofNat 64 occ.toNat)}"

def genMoves (seed n : Nat) (rootsFile : String) : IO Unit := do
  let roots ← readLines rootsFile
  let out ← IO.getStdout
  for f in roots do
    match readPosition f with
    | some p => out.putStrLn s!"moves\t{posText p.pos}"
    | none => pure ()
  for p in genPositions seed n roots do
    out.putStrLn s!"moves\t{posText p}"

/-- op sequences: playouts with nested null moves and take-backs, always balanced on exit or not —
    both are legal histories of a search -/
def genPlay (seed n : Nat) (rootsFile : String) : IO Unit := do
  let roots ← readLines rootsFile
  let out ← IO.getStdout
  let mut r := Rng.ofSeed (seed + 17)
  let mut starts := genPositions seed n roots
  -- positions with an en-passant target / castling rights / promotions ahead
  let mut tr := Rng.ofSeed (seed + 19)
  for _ in List.range (n / 3) do
    let (t1, p) := templatePos tr
    tr := t1
    match p with
    | some p => starts := p :: starts
    | none => pure ()
  -- a few starts with a halfmove clock beyond any small integer type (a FEN may carry any u32)
  let mut hr := Rng.ofSeed (seed + 23)
  let mut starts2 : List Rules.Pos := []
  let mut idx := 0
  for p in starts do
    idx := idx + 1
    if idx % 9 == 0 then
      let (h1, extra) := hr.below 400
      hr := h1
      starts2 := { p with halfmove := 200 + extra } :: starts2
    else starts2 := p :: starts2
  starts := starts2
  -- one very long game, taken back to the start: a history deeper than any small fixed-size buffer
  let shuffle := ["g1f3:0", "g8f6:0", "f3g1:0", "f6g8:0"]
  let longOps := (List.replicate 150 shuffle).flatten ++ List.replicate 600 "undo"
  out.putStrLn s!"play\t{startFen}\t{" ".intercalate longOps}"
  for p in starts do
    let (r1, len) := r.below 40
    let (r2, withNulls) := r1.below 3
    r := r2
    -- walk with an explicit stack so that undo ops are well formed
    let mut cur := p
    let mut stack : List (Rules.Pos × Bool) := []   -- (position before the op, op was null)
    let mut ops : List String := []
    let mut lastNull := false
    -- an en-passant target replaced by another one: answer a double push with a double push
    if cur.ep.isSome then
      match (Rules.legalMoves cur).find? (fun m => (Rules.apply cur m).ep.isSome) with
      | some m =>
        stack := (cur, false) :: stack
        cur := Rules.apply cur m
        ops := m.text :: ops
      | none => pure ()
    for _ in List.range (len + 1) do
      let (r3, choice) := r.below 10
      r := r3
      if (choice < 2 || (lastNull && choice < 7)) && !stack.isEmpty then
        match stack with
        | (prev, wasNull) :: tl =>
          ops := (if wasNull then "undonull" else "undo") :: ops
          cur := prev
          stack := tl
          lastNull := match tl with | (_, wn) :: _ => wn | [] => false
        | [] => pure ()
      else if ((choice == 2 && withNulls == 0) || (cur.ep.isSome && choice < 7 && withNulls != 2))
          && !lastNull && !(Rules.inCheck cur.board cur.player) then
        stack := (cur, true) :: stack
        cur := { cur with player := cur.player.other, ep := none, plies := cur.plies + 1 }
        ops := "null" :: ops
        lastNull := true
      else
        let (r4, m) := pickWeighted r (Rules.legalMoves cur)
        r := r4
        match m with
        | some m =>
          stack := (cur, false) :: stack
          cur := Rules.apply cur m
          ops := m.text :: ops
          lastNull := false
        | none => pure ()
    out.putStrLn s!"play\t{posText p}\t{" ".intercalate ops.reverse}"


def genTemplates (seed n : Nat) : IO Unit := do
  let out ← IO.getStdout
  let mut r := Rng.ofSeed (seed + 101)
  let mut k := 0
  let mut tries := 0
  while k < n && tries < 40 * n + 1000 do
    tries := tries + 1
    let (r1, p) := templatePos r
    r := r1
    match p with
    | some p =>
      out.putStrLn s!"moves\t{posText p}"
      k := k + 1
    | none => pure ()

def genDraws (seed n : Nat) (rootsFile : String) : IO Unit := do
  let roots ← readLines rootsFile
  let out ← IO.getStdout
  let mut r := Rng.ofSeed (seed + 211)
  let rootPos := (startFen :: roots).filterMap fun f => (readPosition f).map (·.pos)
  for i in List.range n do
    let (r1, c) := r.below 10
    r := r1
    if c < 3 then
      -- sparse material, possibly with a high clock
      let (r2, p) := sparsePos r
      r := r2
      match p with
      | some p =>
        let (r3, ms) := shufflePlayout r p (i % 7)
        r := r3
        out.putStrLn s!"play\t{posText p}\t{" ".intercalate (ms.map Move.text)}"
      | none => pure ()
    else
      let (r2, root) := if c < 6 then r.pick rootPos else (randomLegal r 10)
      -- sometimes give the start a non-zero clock without history
      let (r3, hm) := r2.below 140
      let (r4, useHm) := r3.below 3
      let root := if useHm == 0 then { root with halfmove := hm } else root
      let (r5, len) := r4.below 60
      let (r6, ms) := shufflePlayout r5 root (len + 4)
      r := r6
      out.putStrLn s!"play\t{posText root}\t{" ".intercalate (ms.map Move.text)}"

def genFen (seed n : Nat) (rootsFile : String) : IO Unit := do
  let roots ← readLines rootsFile
  let out ← IO.getStdout
  let mut ps := genPositions (seed + 307) (n / 3) roots
  -- template positions: e.p. targets whose capture is pinned / discovers an attack / has no capturer,
  -- castling rights in every combination, promotions (the reader must keep every field as written)
  let mut tr := Rng.ofSeed (seed + 313)
  for _ in List.range (n / 4) do
    let (t1, p) := templatePos tr
    tr := t1
    match p with
    | some p => ps := p :: ps
    | none => pure ()
  let mut r := Rng.ofSeed (seed + 311)
  for p in ps do
    let t := posText p
    out.putStrLn s!"fenrt\t{t}"
    out.putStrLn s!"fen\t{t}"
    -- optional counters omitted, as the grammar allows
    let fields := t.splitOn " "
    out.putStrLn s!"fen\t{" ".intercalate (fields.take 4)}"
    out.putStrLn s!"fen\t{" ".intercalate (fields.take 5)}"
    for v in numberVariants do
      out.putStrLn s!"fen\t{" ".intercalate (fields.take 4)} {v} 1"
      out.putStrLn s!"fen\t{" ".intercalate (fields.take 5)} {v}"
    -- two random corruptions
    let (r1, m1) := mutateText r t.toList
    let (r2, m2) := mutateText r1 m1
    r := r2
    let clean (l : List Char) := String.ofList (l.filter (fun c => c != '\n' && c != '\r'))
    out.putStrLn s!"fen\t{clean m1}"
    out.putStrLn s!"fen\t{clean m2}"
  -- characters of 2, 3 and 4 bytes at every byte offset of a long rejected text (error paths that
  -- quote or abbreviate the input must cut at character boundaries)
  for wide in ["é", "€", "😀"] do
    for off in List.range 140 do
      let pad := String.ofList (List.replicate off 'x')
      out.putStrLn s!"fen\t{startFen} {pad}{wide}{wide} tail"
      if off % 4 == 0 then
        out.putStrLn s!"fen\t{pad}{wide}/8/8/8/8/8/8/8 w - - 0 1"
        out.putStrLn s!"fen\trnbqkbnr/pppppppp/8/8/8/8/PPPPPPPP/RNBQKBNR w KQkq - 0 {pad}{wide}"
  -- characters that the Unicode class tests (`is_numeric`, `is_alphabetic`, `is_whitespace`, case mapping) accept
  -- although they are not the ASCII digit / letter / space the grammar means: put in the place of every character
  -- of a valid text, and on their own
  let kiwi := "r3k2r/p1ppqpb1/bn2pnp1/3PN3/1p2P3/2N2Q1p/PPPBBPPP/R3K2R w KQkq - 0 1"
  for odd in ["٨", "８", "²", "Ⅷ", "½", "Ｋ", "к", "ｑ", "\u00a0", "\u2003", "\u3000", "Ｗ"] do
    out.putStrLn s!"fen\t{odd}"
    for base in [startFen, kiwi] do
      let cs := base.toList
      for i in List.range cs.length do
        out.putStrLn s!"fen\t{String.ofList (cs.take i)}{odd}{String.ofList (cs.drop (i + 1))}"
  -- systematic rank-width corruptions of the start position
  let ranks := ["rnbqkbnr", "pppppppp", "8", "8", "8", "8", "PPPPPPPP", "RNBQKBNR"]
  let variants := ["9", "7", "44p", "ppppppppp", "ppppppp", "71", "17", "p7p", "8p", "", "1p6", "0p7", "p0p6"]
  for i in List.range 8 do
    for v in variants do
      let rs := ranks.zipIdx.map fun (x, k) => if k == i then v else x
      out.putStrLn s!"fen\t{"/".intercalate rs} w KQkq - 0 1"
    -- compensating pair: one rank too wide, the next too narrow (total still 64)
    if i < 7 then
      let rs := ranks.zipIdx.map fun (x, k) => if k == i then "ppppppppp" else if k == i + 1 then "7" else x
      out.putStrLn s!"fen\t{"/".intercalate rs} w - - 0 1"

def main (args : List String) : IO UInt32 := do
  match args with
  | ["serve"] =>
    serveLoop (← IO.getStdin) (← IO.getStdout)
    return 0
  | ["gen", "c07", seed, n] => genC07 seed.toNat! n.toNat!; return 0
  | ["gen", "moves", seed, n, roots] => genMoves seed.toNat! n.toNat! roots; return 0
  | ["gen", "play", seed, n, roots] => genPlay seed.toNat! n.toNat! roots; return 0
  | ["gen", "templates", seed, n] => genTemplates seed.toNat! n.toNat!; return 0
  | ["gen", "draws", seed, n, roots] => genDraws seed.toNat! n.toNat! roots; return 0
  | ["gen", "fen", seed, n, roots] => genFen seed.toNat! n.toNat! roots; return 0
  | ["gen", "games", seed, n, roots] => genGames seed.toNat! n.toNat! roots; return 0
  | ["gen", "ucimoves", seed, n] => genUciMoves seed.toNat! n.toNat!; return 0
  | ["gen", "tt", seed, n, big] => genTT seed.toNat! n.toNat! (big == "1"); return 0
  | ["gen", "limits", seed, n] => genLimits seed.toNat! n.toNat!; return 0
  | ["gen", "eval", seed, n, roots] => genEval seed.toNat! n.toNat! roots; return 0
  | ["gen", "see", seed, n, roots] => genTactical "see" seed.toNat! n.toNat! roots; return 0
  | ["gen", "san", seed, n, roots] => genTactical "san" seed.toNat! n.toNat! roots; return 0
  | ["gen", "picker", seed, n, roots] => genPicker seed.toNat! n.toNat! roots; return 0
  | ["gen", "drawsearch", seed, n, roots] => genDrawSearch seed.toNat! n.toNat! roots; return 0
  | ["gen", "search", mode, seed, n, maxDepth, roots] =>
    genSearch mode seed.toNat! n.toNat! maxDepth.toNat! roots; return 0
  | _ =>
    IO.eprintln "usage: tvdriver serve | gen <stream> <seed> <n> [roots-file]"
    return 2
