-- Root of the `TcheranVerif` library.
import TcheranVerif.Model.Bits
import TcheranVerif.Model.Attacks
import TcheranVerif.Model.Magic
import TcheranVerif.Model.Board
import TcheranVerif.Model.Game
import TcheranVerif.Model.Movegen
import TcheranVerif.Model.Rules
import TcheranVerif.Model.Fen
import TcheranVerif.Model.Eval
import TcheranVerif.Model.Draw
import TcheranVerif.Model.Geometry
import TcheranVerif.Driver.Proto
import TcheranVerif.Driver.GenPos
